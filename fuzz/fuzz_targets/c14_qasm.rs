#![no_main]
//! Coverage-guided search over QASM texts (C14): the front end must never panic, and whatever it
//! accepts must survive print -> parse unchanged when it lies in the printable gate set.
use libfuzzer_sys::fuzz_target;

fuzz_target!(|data: &[u8]| {
    let Ok(text) = std::str::from_utf8(data) else { return };
    if let Err(msg) = qv::props::c14::check_fuzz_text(text) {
        panic!("C14 violation: {msg}\ntext: {text}");
    }
});
