#![no_main]
//! Coverage-guided search over scalar expression trees (C07): bytes are decoded into the same
//! `SCase` value the proptest sections use and handed to the same check (BigInt model oracle).
use arbitrary::Unstructured;
use libfuzzer_sys::fuzz_target;
use qv::props::c07::{check_scalar_strict, SCase, SE};

fn mant(u: &mut Unstructured) -> i64 {
    match u.int_in_range(0u8..=7).unwrap_or(0) {
        0 => 0,
        1 => 1,
        2 => -1,
        3 => {
            let k = u.int_in_range(0u32..=62).unwrap_or(0);
            1i64 << k
        }
        4 => {
            let k = u.int_in_range(1u32..=62).unwrap_or(1);
            (1i64 << k) + if u.arbitrary().unwrap_or(false) { 1 } else { -1 }
        }
        5 => i64::MAX,
        6 => -i64::MAX,
        _ => {
            let v: i64 = u.arbitrary().unwrap_or(3);
            if v == i64::MIN {
                1
            } else {
                v
            }
        }
    }
}

fn expo(u: &mut Unstructured) -> i32 {
    match u.int_in_range(0u8..=3).unwrap_or(0) {
        0 => 0,
        1 => u.int_in_range(-70i32..=70).unwrap_or(0),
        2 => *u.choose(&[-128i32, -65, -64, -63, 63, 64, 65, 127, 128]).unwrap_or(&64),
        _ => u.int_in_range(-1000i32..=1000).unwrap_or(0),
    }
}

fn leaf(u: &mut Unstructured) -> SE {
    match u.int_in_range(0u8..=7).unwrap_or(0) {
        0 => SE::New([mant(u) % 8, mant(u) % 8, mant(u) % 8, mant(u) % 8], expo(u)),
        1 => SE::New([mant(u), 0, mant(u), 0], expo(u)),
        2 => SE::Int(mant(u)),
        3 => SE::Phase(u.int_in_range(-8i64..=8).unwrap_or(1), 4),
        4 => SE::OnePlus(u.int_in_range(-8i64..=8).unwrap_or(1), 4),
        5 => SE::Sqrt2Pow(u.int_in_range(-60i32..=60).unwrap_or(1)),
        6 => {
            let x: f64 = u.arbitrary().unwrap_or(0.5);
            SE::Real(if x.is_finite() && x.abs() < 1e100 && (x == 0.0 || x.abs() > 1e-100) { x } else { 0.75 })
        }
        _ => SE::Phase(u.int_in_range(-9i64..=9).unwrap_or(1), *u.choose(&[3i64, 5, 6, 7, 8, 16]).unwrap_or(&3)),
    }
}

fn tree(u: &mut Unstructured, depth: u32) -> SE {
    if depth == 0 || u.len() < 2 {
        return leaf(u);
    }
    match u.int_in_range(0u8..=8).unwrap_or(0) {
        0 | 1 => SE::Add(Box::new(tree(u, depth - 1)), Box::new(tree(u, depth - 1))),
        2 => SE::Sub(Box::new(tree(u, depth - 1)), Box::new(tree(u, depth - 1))),
        3 | 4 => SE::Mul(Box::new(tree(u, depth - 1)), Box::new(tree(u, depth - 1))),
        5 => SE::Conj(Box::new(tree(u, depth - 1))),
        6 => SE::MulSqrt2(Box::new(tree(u, depth - 1)), u.int_in_range(-9i32..=9).unwrap_or(1)),
        7 => SE::MulPhase(Box::new(tree(u, depth - 1)), (u.int_in_range(-8i64..=8).unwrap_or(1), 4)),
        _ => leaf(u),
    }
}

fuzz_target!(|data: &[u8]| {
    let mut u = Unstructured::new(data);
    let variant = u.int_in_range(0u8..=5).unwrap_or(0);
    let a = tree(&mut u, 7);
    let b = tree(&mut u, 2);
    let case = SCase { a, variant, b };
    if let Err(msg) = check_scalar_strict(&case) {
        panic!("C07 violation: {msg}\ncase: {}", qv::props::c07::case_json(&case));
    }
});
