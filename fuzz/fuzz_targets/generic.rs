#![no_main]
//! Generic coverage-guided target: QV_FUZZ_PROP / QV_FUZZ_SECTION select one random section of one
//! property; an input is the JSON text of a case of that section, mutated structurally
//! (qv::fuzzmut) and run through the section's own check, i.e. the same oracle as the proptest
//! runs.  A violation is written as an ordinary replay file (qv replay <file>) and reported as
//! a crash.
use libfuzzer_sys::{fuzz_crossover, fuzz_mutator, fuzz_target};
use qv::engine::{fuzz_open, FuzzHandle};
use std::sync::OnceLock;

static HANDLE: OnceLock<FuzzHandle> = OnceLock::new();

fn handle() -> &'static FuzzHandle {
    HANDLE.get_or_init(|| {
        qv::engine::install_panic_hook();
        let prop = std::env::var("QV_FUZZ_PROP").expect("QV_FUZZ_PROP");
        let section = std::env::var("QV_FUZZ_SECTION").expect("QV_FUZZ_SECTION");
        let dir = std::env::var("VERIF_DIR").unwrap_or_else(|_| "/verif".to_string());
        let _ = rayon::ThreadPoolBuilder::new().num_threads(1).build_global();
        let h = fuzz_open(&prop, &section, std::path::Path::new(&dir)).unwrap_or_else(|e| panic!("{e}"));
        h.learn_bounds(std::env::var("QV_FUZZ_LEARN").ok().and_then(|s| s.parse().ok()).unwrap_or(3000));
        h
    })
}

fuzz_target!(|data: &[u8]| {
    handle().one_or_panic(data);
});

fuzz_mutator!(|data: &mut [u8], size: usize, max_size: usize, seed: u32| {
    let _ = handle();
    qv::fuzzmut::mutate(data, size, max_size, seed)
});

fuzz_crossover!(|a: &[u8], b: &[u8], out: &mut [u8], seed: u32| {
    let _ = handle();
    qv::fuzzmut::crossover(a, b, out, seed)
});
