OPENQASM 2.0;
include "qelib1.inc";
qreg q[2];
qreg r[1];
creg c[2];
gate g(a) x,y { cx x,y; rz(a) y; }
rz(3*pi/7) q[0];
rx(-pi/4) r[0];
ccz q[0],q[1],r[0];
g(pi/3) q[1],r[0];
measure q[0] -> c[1];
swap q[0],q[1];
xcx q[0],r;
