//! Engine: sharded proptest runner, enumerations, replay, evidence, known findings, watchdog.
//!
//! A property is a list of *sections*.  A section owns a case type `C` (serde), a way of producing
//! cases (a proptest strategy or a bounded-exhaustive enumeration) and a check function
//! `fn(&C, &mut Obs) -> Result<(), String>` where `Err` is a violation.  All random choices are made
//! by proptest from a seed derived from (VERIF_SEED, property, section, shard), so a run is a pure
//! function of the tree under test and the seed.

use proptest::strategy::{BoxedStrategy, Strategy};
use proptest::test_runner::{
    Config, RngAlgorithm, TestCaseError, TestError, TestRng, TestRunner,
};
use serde::de::DeserializeOwned;
use serde::Serialize;
use serde_json::{json, Value};
use std::cell::RefCell;
use std::collections::hash_map::DefaultHasher;
use std::collections::{BTreeMap, HashSet};
use std::hash::{Hash, Hasher};
use std::panic::{self, AssertUnwindSafe};
use std::path::{Path, PathBuf};
use std::sync::atomic::{AtomicBool, AtomicU64, Ordering};
use std::sync::{Arc, Mutex};
use std::time::{Duration, Instant};

pub const NSHARDS: usize = 16;
pub const WATCHDOG_SECS: u64 = 120;

#[derive(Clone, Copy, PartialEq, Eq, Debug)]
pub enum Tier {
    Quick,
    Thorough,
}

impl Tier {
    pub fn name(self) -> &'static str {
        match self {
            Tier::Quick => "quick",
            Tier::Thorough => "thorough",
        }
    }
    /// pick by tier
    pub fn pick<T>(self, quick: T, thorough: T) -> T {
        match self {
            Tier::Quick => quick,
            Tier::Thorough => thorough,
        }
    }
}

#[derive(Clone)]
pub struct Ctx {
    pub prop: &'static str,
    pub tier: Tier,
    pub seed: u64,
    pub verif_dir: PathBuf,
    pub known: Arc<KnownFindings>,
    /// scale factor on case counts (VERIF_SCALE, default 1.0) for experiments
    pub scale: f64,
}

impl Ctx {
    pub fn cases(&self, quick: u64, thorough: u64) -> u64 {
        let n = self.tier.pick(quick, thorough) as f64 * self.scale;
        (n.ceil() as u64).max(1)
    }
}

// ---------------------------------------------------------------------------------------------
// Known findings

#[derive(Debug, Default)]
pub struct KnownFindings {
    /// (property, signature id) -> what_fails, for entries with status "known"
    pub active: BTreeMap<(String, String), String>,
}

impl KnownFindings {
    pub fn load(path: &Path) -> KnownFindings {
        let mut kf = KnownFindings::default();
        if let Ok(s) = std::fs::read_to_string(path) {
            if let Ok(v) = serde_json::from_str::<Value>(&s) {
                if let Some(arr) = v.get("findings").and_then(|x| x.as_array()) {
                    for e in arr {
                        let status = e.get("status").and_then(|x| x.as_str()).unwrap_or("");
                        if status == "known" {
                            let p = e.get("property").and_then(|x| x.as_str()).unwrap_or("");
                            let id = e.get("id").and_then(|x| x.as_str()).unwrap_or("");
                            let w = e.get("what_fails").and_then(|x| x.as_str()).unwrap_or("");
                            kf.active
                                .insert((p.to_string(), id.to_string()), w.to_string());
                        }
                    }
                }
            }
        }
        kf
    }
    pub fn is_active(&self, prop: &str, id: &str) -> bool {
        self.active.contains_key(&(prop.to_string(), id.to_string()))
    }
}

// ---------------------------------------------------------------------------------------------
// Panic capture

thread_local! {
    static LAST_PANIC: RefCell<Option<String>> = const { RefCell::new(None) };
    static QUIET: RefCell<u32> = const { RefCell::new(0) };
}

pub fn install_panic_hook() {
    let default = panic::take_hook();
    panic::set_hook(Box::new(move |info| {
        let quiet = QUIET.with(|q| *q.borrow() > 0);
        let msg = if let Some(s) = info.payload().downcast_ref::<&str>() {
            s.to_string()
        } else if let Some(s) = info.payload().downcast_ref::<String>() {
            s.clone()
        } else {
            "<non-string panic>".to_string()
        };
        let loc = info
            .location()
            .map(|l| format!("{}:{}", l.file(), l.line()))
            .unwrap_or_default();
        LAST_PANIC.with(|p| *p.borrow_mut() = Some(format!("{msg} @ {loc}")));
        if !quiet {
            default(info);
        }
    }));
}

/// Run `f`, catching a panic and returning its message + location.
pub fn catch<T>(f: impl FnOnce() -> T) -> Result<T, String> {
    QUIET.with(|q| *q.borrow_mut() += 1);
    let r = panic::catch_unwind(AssertUnwindSafe(f));
    QUIET.with(|q| *q.borrow_mut() -= 1);
    match r {
        Ok(v) => Ok(v),
        Err(_) => Err(LAST_PANIC
            .with(|p| p.borrow_mut().take())
            .unwrap_or_else(|| "<panic>".to_string())),
    }
}

// ---------------------------------------------------------------------------------------------
// Observations made by a check about one case

#[derive(Default)]
pub struct Obs {
    pub nontrivial: bool,
    pub classes: Vec<&'static str>,
    pub known_hits: Vec<(String, String)>,
    pub skipped: Vec<&'static str>,
    /// extra distinctness key (if several sub-cases are counted per case)
    pub nt_keys: Vec<u64>,
    active: Option<Arc<KnownFindings>>,
    prop: &'static str,
    /// strict = replay without known-finding suppression
    pub strict: bool,
}

impl Obs {
    pub fn new(prop: &'static str, known: Arc<KnownFindings>, strict: bool) -> Obs {
        Obs {
            active: Some(known),
            prop,
            strict,
            ..Default::default()
        }
    }
    pub fn class(&mut self, c: &'static str) {
        self.classes.push(c);
    }
    pub fn class_if(&mut self, cond: bool, c: &'static str) {
        if cond {
            self.classes.push(c);
        }
    }
    pub fn nontrivial(&mut self) {
        self.nontrivial = true;
    }
    /// count an additional distinct non-trivial sub-case identified by `key`
    pub fn nontrivial_key(&mut self, key: u64) {
        self.nontrivial = true;
        self.nt_keys.push(key);
    }
    pub fn skip(&mut self, why: &'static str) {
        self.skipped.push(why);
    }
    /// A violation that matches the classifier of finding `id`.  If that finding is listed as
    /// `known` it is recorded and the search goes on (Ok); otherwise it is a violation.
    pub fn known(&mut self, id: &str, msg: impl Into<String>) -> Result<(), String> {
        let msg = msg.into();
        let active = self
            .active
            .as_ref()
            .map(|k| k.is_active(self.prop, id))
            .unwrap_or(false);
        if active && !self.strict {
            self.known_hits.push((id.to_string(), msg));
            Ok(())
        } else {
            Err(format!("[{id}] {msg}"))
        }
    }
    pub fn is_known_active(&self, id: &str) -> bool {
        self.active
            .as_ref()
            .map(|k| k.is_active(self.prop, id))
            .unwrap_or(false)
            && !self.strict
    }
}

// ---------------------------------------------------------------------------------------------
// Results

#[derive(Default, Debug)]
pub struct SectionResult {
    pub name: String,
    pub evaluations: u64,
    pub nontrivial_hashes: HashSet<u64>,
    pub classes: BTreeMap<String, u64>,
    pub known: BTreeMap<String, (u64, String)>,
    pub skipped: BTreeMap<String, u64>,
    pub samples: Vec<Value>,
    pub violations: Vec<(String, Value)>, // (message, minimal case)
    pub exhaustive: Option<String>,
    pub harness_errors: Vec<String>,
}

impl SectionResult {
    fn merge(&mut self, o: SectionResult) {
        self.evaluations += o.evaluations;
        self.nontrivial_hashes.extend(o.nontrivial_hashes);
        for (k, v) in o.classes {
            *self.classes.entry(k).or_default() += v;
        }
        for (k, (n, m)) in o.known {
            let e = self.known.entry(k).or_insert((0, m));
            e.0 += n;
        }
        for (k, v) in o.skipped {
            *self.skipped.entry(k).or_default() += v;
        }
        for s in o.samples {
            if self.samples.len() < 6 {
                self.samples.push(s);
            }
        }
        self.violations.extend(o.violations);
        self.harness_errors.extend(o.harness_errors);
        if o.exhaustive.is_some() {
            self.exhaustive = o.exhaustive;
        }
    }
}

fn hash_json<C: Serialize>(c: &C) -> u64 {
    let s = serde_json::to_string(c).unwrap_or_default();
    let mut h = DefaultHasher::new();
    s.hash(&mut h);
    h.finish()
}

pub fn mix(a: u64, b: u64) -> u64 {
    // splitmix-style mixing
    let mut z = a
        .wrapping_mul(0x9E3779B97F4A7C15)
        .wrapping_add(b)
        .wrapping_add(0x632BE59BD9B4E019);
    z = (z ^ (z >> 30)).wrapping_mul(0xBF58476D1CE4E5B9);
    z = (z ^ (z >> 27)).wrapping_mul(0x94D049BB133111EB);
    z ^ (z >> 31)
}

fn str_hash(s: &str) -> u64 {
    let mut h: u64 = 0xcbf29ce484222325;
    for b in s.bytes() {
        h ^= b as u64;
        h = h.wrapping_mul(0x100000001b3);
    }
    h
}

fn seed_bytes(seed: u64, prop: &str, section: &str, shard: u64) -> [u8; 32] {
    let mut s = mix(seed, str_hash(prop));
    s = mix(s, str_hash(section));
    s = mix(s, shard);
    let mut out = [0u8; 32];
    for i in 0..4 {
        s = mix(s, i as u64 + 1);
        out[i * 8..(i + 1) * 8].copy_from_slice(&s.to_le_bytes());
    }
    out
}

// ---------------------------------------------------------------------------------------------
// Watchdog

type InFlight = Arc<Mutex<Option<(Instant, Box<dyn Fn() -> String + Send>)>>>;

struct Watchdog {
    slots: Vec<InFlight>,
    stop: Arc<AtomicBool>,
    handle: Option<std::thread::JoinHandle<()>>,
}

impl Watchdog {
    fn start(ctx: &Ctx, section: &str, n: usize) -> Watchdog {
        let slots: Vec<InFlight> = (0..n).map(|_| Arc::new(Mutex::new(None))).collect();
        let stop = Arc::new(AtomicBool::new(false));
        let s2 = slots.clone();
        let st2 = stop.clone();
        let prop = ctx.prop;
        let dir = ctx.verif_dir.join("replays");
        let section = section.to_string();
        let handle = std::thread::spawn(move || {
            while !st2.load(Ordering::Relaxed) {
                std::thread::sleep(Duration::from_millis(500));
                for slot in &s2 {
                    let g = slot.lock().unwrap();
                    if let Some((t0, f)) = g.as_ref() {
                        if t0.elapsed() > Duration::from_secs(WATCHDOG_SECS) {
                            let _ = std::fs::create_dir_all(&dir);
                            let path = dir.join(format!("{prop}-inflight.json"));
                            let body = format!(
                                "{{\"property\":\"{prop}\",\"section\":\"{section}\",\"case\":{}}}",
                                f()
                            );
                            let _ = std::fs::write(&path, body);
                            println!(
                                "INCONCLUSIVE property={prop} hang-suspect (>{WATCHDOG_SECS}s in one case) replay={}",
                                path.display()
                            );
                            std::process::exit(2);
                        }
                    }
                }
            }
        });
        Watchdog {
            slots,
            stop,
            handle: Some(handle),
        }
    }
}

impl Drop for Watchdog {
    fn drop(&mut self) {
        self.stop.store(true, Ordering::Relaxed);
        if let Some(h) = self.handle.take() {
            let _ = h.join();
        }
    }
}

// ---------------------------------------------------------------------------------------------
// Section trait and generic implementation

pub trait SectionDyn: Send + Sync {
    fn name(&self) -> &str;
    fn run(&self, ctx: &Ctx) -> SectionResult;
    /// Re-run one serialised case; strict = no known-finding suppression.
    fn replay(&self, ctx: &Ctx, case: &Value, strict: bool) -> Result<ReplayOutcome, String>;
    /// `n` ordinary generated cases as JSON values (starting corpus for the fuzzer, whose inputs
    /// are serialised cases mutated structurally, see fuzzmut.rs).
    fn gen_cases(&self, ctx: &Ctx, n: usize) -> Vec<Value>;
}

#[derive(Debug)]
pub enum FuzzOutcome {
    /// the strategy rejected the stream or the section is enumerated
    NoCase,
    Pass,
    /// (message, replay document)
    Violation(String, Value),
    HarnessError(String),
}

#[derive(Debug)]
pub enum ReplayOutcome {
    Pass,
    Known(Vec<(String, String)>),
    Violation(String),
}

pub type CheckFn<C> = Arc<dyn Fn(&C, &mut Obs) -> Result<(), String> + Send + Sync>;

pub enum Source<C> {
    /// proptest strategy factory, number of cases (total over all shards)
    Random(Arc<dyn Fn() -> BoxedStrategy<C> + Send + Sync>, u64),
    /// bounded-exhaustive enumeration: shard `k` of `n` gets every n-th item; the string
    /// describes the finite space
    Enumerate(
        Arc<dyn Fn(usize, usize) -> Box<dyn Iterator<Item = C>> + Send + Sync>,
        String,
    ),
}

pub struct Section<C> {
    pub name: String,
    pub source: Source<C>,
    pub check: CheckFn<C>,
    pub shards: usize,
    pub max_shrink_iters: u32,
}

impl<C> Section<C>
where
    C: Clone + std::fmt::Debug + Serialize + DeserializeOwned + Send + Sync + 'static,
{
    pub fn random<S, F>(
        name: &str,
        cases: u64,
        strat: impl Fn() -> S + Send + Sync + 'static,
        check: F,
    ) -> Box<dyn SectionDyn>
    where
        S: Strategy<Value = C> + 'static,
        F: Fn(&C, &mut Obs) -> Result<(), String> + Send + Sync + 'static,
    {
        Box::new(Section {
            name: name.to_string(),
            source: Source::Random(Arc::new(move || strat().boxed()), cases),
            check: Arc::new(check),
            shards: NSHARDS,
            max_shrink_iters: 4000,
        })
    }

    pub fn random_sharded<S, F>(
        name: &str,
        cases: u64,
        shards: usize,
        strat: impl Fn() -> S + Send + Sync + 'static,
        check: F,
    ) -> Box<dyn SectionDyn>
    where
        S: Strategy<Value = C> + 'static,
        F: Fn(&C, &mut Obs) -> Result<(), String> + Send + Sync + 'static,
    {
        Box::new(Section {
            name: name.to_string(),
            source: Source::Random(Arc::new(move || strat().boxed()), cases),
            check: Arc::new(check),
            shards,
            max_shrink_iters: 4000,
        })
    }

    pub fn enumerate<F>(
        name: &str,
        space: &str,
        it: impl Fn(usize, usize) -> Box<dyn Iterator<Item = C>> + Send + Sync + 'static,
        check: F,
    ) -> Box<dyn SectionDyn>
    where
        F: Fn(&C, &mut Obs) -> Result<(), String> + Send + Sync + 'static,
    {
        Box::new(Section {
            name: name.to_string(),
            source: Source::Enumerate(Arc::new(it), space.to_string()),
            check: Arc::new(check),
            shards: NSHARDS,
            max_shrink_iters: 0,
        })
    }
}

/// Evaluate one case through the check with harness-panic protection.
fn eval_case<C>(
    check: &CheckFn<C>,
    case: &C,
    ctx: &Ctx,
    strict: bool,
) -> (Obs, Result<Result<(), String>, String>) {
    let mut obs = Obs::new(ctx.prop, ctx.known.clone(), strict);
    let r = catch(|| check(case, &mut obs));
    (obs, r)
}

fn record<C: Serialize>(res: &mut SectionResult, case: &C, obs: &Obs) {
    res.evaluations += 1;
    for c in &obs.classes {
        *res.classes.entry((*c).to_string()).or_default() += 1;
    }
    for s in &obs.skipped {
        *res.skipped.entry((*s).to_string()).or_default() += 1;
    }
    for (id, msg) in &obs.known_hits {
        let e = res.known.entry(id.clone()).or_insert((0, msg.clone()));
        e.0 += 1;
    }
    if obs.nontrivial {
        let h = hash_json(case);
        let fresh = res.nontrivial_hashes.insert(h);
        for k in &obs.nt_keys {
            res.nontrivial_hashes.insert(mix(h, *k));
        }
        if fresh && res.samples.len() < 3 {
            if let Ok(v) = serde_json::to_value(case) {
                res.samples.push(v);
            }
        }
    }
}

impl<C> SectionDyn for Section<C>
where
    C: Clone + std::fmt::Debug + Serialize + DeserializeOwned + Send + Sync + 'static,
{
    fn name(&self) -> &str {
        &self.name
    }

    fn run(&self, ctx: &Ctx) -> SectionResult {
        let nshards = self.shards.max(1);
        let wd = Watchdog::start(ctx, &self.name, nshards);
        let mut total = SectionResult {
            name: self.name.clone(),
            ..Default::default()
        };
        let stop_all = Arc::new(AtomicBool::new(false));
        let results: Vec<SectionResult> = std::thread::scope(|scope| {
            let mut hs = vec![];
            for shard in 0..nshards {
                let slot = wd.slots[shard].clone();
                let stop_all = stop_all.clone();
                let check = self.check.clone();
                let name = self.name.clone();
                let ctx = ctx.clone();
                let source = &self.source;
                let max_shrink = self.max_shrink_iters;
                hs.push(
                    std::thread::Builder::new()
                        .stack_size(256 << 20)
                        .spawn_scoped(scope, move || {
                            let mut res = SectionResult {
                                name: name.clone(),
                                ..Default::default()
                            };
                            match source {
                                Source::Random(mk, cases) => {
                                    let per =
                                        cases / nshards as u64 + u64::from((shard as u64) < cases % nshards as u64);
                                    if per == 0 {
                                        return res;
                                    }
                                    let config = Config {
                                        cases: per.min(u32::MAX as u64) as u32,
                                        failure_persistence: None,
                                        max_shrink_iters: max_shrink,
                                        max_global_rejects: 65536,
                                        max_local_rejects: 65536,
                                        verbose: 0,
                                        ..Config::default()
                                    };
                                    let rng = TestRng::from_seed(
                                        RngAlgorithm::ChaCha,
                                        &seed_bytes(ctx.seed, ctx.prop, &name, shard as u64),
                                    );
                                    let mut runner = TestRunner::new_with_rng(config, rng);
                                    let strat = mk();
                                    let failed = AtomicBool::new(false);
                                    let res_cell = RefCell::new(&mut res);
                                    let harness_err: RefCell<Option<String>> = RefCell::new(None);
                                    let out = runner.run(&strat, |case: C| {
                                        if stop_all.load(Ordering::Relaxed)
                                            && !failed.load(Ordering::Relaxed)
                                        {
                                            // another shard already failed: finish quickly
                                            return Ok(());
                                        }
                                        {
                                            let c2 = case.clone();
                                            *slot.lock().unwrap() = Some((
                                                Instant::now(),
                                                Box::new(move || {
                                                    serde_json::to_string(&c2).unwrap_or_default()
                                                }),
                                            ));
                                        }
                                        let (obs, r) = eval_case(&check, &case, &ctx, false);
                                        *slot.lock().unwrap() = None;
                                        match r {
                                            Err(hp) => {
                                                // panic inside the harness itself (not inside a
                                                // guarded quizx call): harness error
                                                *harness_err.borrow_mut() = Some(hp.clone());
                                                failed.store(true, Ordering::Relaxed);
                                                Err(TestCaseError::fail(format!(
                                                    "HARNESS-PANIC {hp}"
                                                )))
                                            }
                                            Ok(Ok(())) => {
                                                if !failed.load(Ordering::Relaxed) {
                                                    record(*res_cell.borrow_mut(), &case, &obs);
                                                }
                                                Ok(())
                                            }
                                            Ok(Err(msg)) => {
                                                if !failed.load(Ordering::Relaxed) {
                                                    record(*res_cell.borrow_mut(), &case, &obs);
                                                }
                                                failed.store(true, Ordering::Relaxed);
                                                stop_all.store(true, Ordering::Relaxed);
                                                Err(TestCaseError::fail(msg))
                                            }
                                        }
                                    });
                                    drop(res_cell);
                                    match out {
                                        Ok(()) => {}
                                        Err(TestError::Fail(reason, minimal)) => {
                                            let msg = reason.message().to_string();
                                            if msg.starts_with("HARNESS-PANIC") {
                                                res.harness_errors.push(format!(
                                                    "{msg} case={}",
                                                    serde_json::to_string(&minimal)
                                                        .unwrap_or_default()
                                                ));
                                            } else {
                                                res.violations.push((
                                                    msg,
                                                    serde_json::to_value(&minimal)
                                                        .unwrap_or(Value::Null),
                                                ));
                                            }
                                        }
                                        Err(TestError::Abort(reason)) => {
                                            res.harness_errors
                                                .push(format!("proptest abort: {reason}"));
                                        }
                                    }
                                }
                                Source::Enumerate(mk, space) => {
                                    res.exhaustive = Some(space.clone());
                                    for case in mk(shard, nshards) {
                                        if stop_all.load(Ordering::Relaxed) {
                                            break;
                                        }
                                        {
                                            let c2 = case.clone();
                                            *slot.lock().unwrap() = Some((
                                                Instant::now(),
                                                Box::new(move || {
                                                    serde_json::to_string(&c2).unwrap_or_default()
                                                }),
                                            ));
                                        }
                                        let (obs, r) = eval_case(&check, &case, &ctx, false);
                                        *slot.lock().unwrap() = None;
                                        match r {
                                            Err(hp) => {
                                                res.harness_errors.push(format!(
                                                    "HARNESS-PANIC {hp} case={}",
                                                    serde_json::to_string(&case)
                                                        .unwrap_or_default()
                                                ));
                                                stop_all.store(true, Ordering::Relaxed);
                                                break;
                                            }
                                            Ok(Ok(())) => record(&mut res, &case, &obs),
                                            Ok(Err(msg)) => {
                                                record(&mut res, &case, &obs);
                                                res.violations.push((
                                                    msg,
                                                    serde_json::to_value(&case)
                                                        .unwrap_or(Value::Null),
                                                ));
                                                stop_all.store(true, Ordering::Relaxed);
                                                break;
                                            }
                                        }
                                    }
                                }
                            }
                            res
                        })
                        .expect("spawn shard"),
                );
            }
            hs.into_iter()
                .map(|h| h.join().expect("shard thread panicked"))
                .collect()
        });
        drop(wd);
        for r in results {
            total.merge(r);
        }
        total
    }

    fn gen_cases(&self, ctx: &Ctx, n: usize) -> Vec<Value> {
        let Source::Random(mk, _) = &self.source else { return vec![] };
        let strat = mk();
        let config = Config {
            cases: 1,
            failure_persistence: None,
            verbose: 0,
            ..Config::default()
        };
        let rng = TestRng::from_seed(RngAlgorithm::ChaCha, &seed_bytes(ctx.seed, ctx.prop, &self.name, 1_000_000));
        let mut runner = TestRunner::new_with_rng(config, rng);
        let mut out = vec![];
        for _ in 0..n {
            if let Ok(t) = strat.new_tree(&mut runner) {
                if let Ok(v) = serde_json::to_value(t.current()) {
                    out.push(v);
                }
            }
        }
        out
    }

    fn replay(&self, ctx: &Ctx, case: &Value, strict: bool) -> Result<ReplayOutcome, String> {
        let c: C = serde_json::from_value(case.clone())
            .map_err(|e| format!("cannot decode case for section {}: {e}", self.name))?;
        let (obs, r) = eval_case(&self.check, &c, ctx, strict);
        match r {
            Err(hp) => Err(format!("harness panic during replay: {hp}")),
            Ok(Err(msg)) => Ok(ReplayOutcome::Violation(msg)),
            Ok(Ok(())) => {
                if obs.known_hits.is_empty() {
                    Ok(ReplayOutcome::Pass)
                } else {
                    Ok(ReplayOutcome::Known(obs.known_hits))
                }
            }
        }
    }
}

// ---------------------------------------------------------------------------------------------
// Property-level run: corpus replay, sections, evidence, exit status

pub struct PropertyDef {
    pub id: &'static str,
    pub rule: &'static str,
    pub assumptions: Vec<&'static str>,
    pub sections: Vec<Box<dyn SectionDyn>>,
}

static REPLAY_COUNTER: AtomicU64 = AtomicU64::new(0);

fn write_replay(ctx: &Ctx, section: &str, msg: &str, case: &Value) -> PathBuf {
    let dir = ctx.verif_dir.join("replays");
    let _ = std::fs::create_dir_all(&dir);
    let body = json!({"property": ctx.prop, "section": section, "message": msg, "case": case});
    let s = serde_json::to_string_pretty(&body).unwrap();
    let n = REPLAY_COUNTER.fetch_add(1, Ordering::Relaxed);
    let path = dir.join(format!(
        "{}-{}-{:016x}-{}.json",
        ctx.prop,
        section,
        str_hash(&s),
        n
    ));
    let _ = std::fs::write(&path, s);
    path
}

/// Returns the process exit code.
pub fn run_property(ctx: &Ctx, def: PropertyDef) -> i32 {
    let t0 = Instant::now();
    let mut violations: Vec<(String, String, PathBuf)> = vec![]; // (section, msg, replay)
    let mut harness_errors: Vec<String> = vec![];
    let mut known_total: BTreeMap<String, (u64, String)> = BTreeMap::new();
    let mut corpus_replayed = 0u64;

    // 1. corpus replay (strict for entries that are not listed as known)
    let corpus_dir = ctx.verif_dir.join("corpus").join(ctx.prop);
    if let Ok(rd) = std::fs::read_dir(&corpus_dir) {
        let mut files: Vec<PathBuf> = rd
            .filter_map(|e| e.ok().map(|e| e.path()))
            .filter(|p| p.extension().map(|x| x == "json").unwrap_or(false))
            .collect();
        files.sort();
        for f in files {
            let Ok(s) = std::fs::read_to_string(&f) else { continue };
            let Ok(v) = serde_json::from_str::<Value>(&s) else {
                harness_errors.push(format!("corpus file {} is not JSON", f.display()));
                continue;
            };
            let sec_name = v.get("section").and_then(|x| x.as_str()).unwrap_or("");
            let Some(case) = v.get("case") else { continue };
            let Some(sec) = def.sections.iter().find(|s| s.name() == sec_name) else {
                harness_errors.push(format!(
                    "corpus file {} names unknown section {sec_name}",
                    f.display()
                ));
                continue;
            };
            corpus_replayed += 1;
            match sec.replay(ctx, case, false) {
                Err(e) => harness_errors.push(e),
                Ok(ReplayOutcome::Pass) => {}
                Ok(ReplayOutcome::Known(hits)) => {
                    for (id, msg) in hits {
                        let e = known_total.entry(id).or_insert((0, msg));
                        e.0 += 1;
                    }
                }
                Ok(ReplayOutcome::Violation(msg)) => {
                    violations.push((sec_name.to_string(), msg, f.clone()));
                }
            }
        }
    }

    // 2. sections
    let mut secs: Vec<SectionResult> = vec![];
    // VERIF_ONLY_SECTIONS=a,b restricts an *experimental* run to some sections; evidence is then
    // only written when VERIF_EVIDENCE_DIR redirects it
    let only: Option<Vec<String>> = std::env::var("VERIF_ONLY_SECTIONS").ok().map(|v| v.split(',').map(|x| x.trim().to_string()).collect());
    for s in &def.sections {
        if let Some(o) = &only {
            if !o.iter().any(|x| x == s.name()) {
                continue;
            }
        }
        let r = s.run(ctx);
        secs.push(r);
    }

    let mut evaluations = 0u64;
    let mut distinct_nt = 0u64;
    let mut samples: Vec<Value> = vec![];
    let mut per_section = serde_json::Map::new();
    let mut exhaustive_spaces: Vec<String> = vec![];
    for r in &mut secs {
        evaluations += r.evaluations;
        distinct_nt += r.nontrivial_hashes.len() as u64;
        for s in r.samples.iter().take(2) {
            samples.push(json!({"section": r.name, "case": s}));
        }
        for (id, (n, m)) in &r.known {
            let e = known_total.entry(id.clone()).or_insert((0, m.clone()));
            e.0 += n;
        }
        // one replay per distinct message, at most 3 per section (every shard that fails reports)
        let mut seen_msgs: Vec<String> = vec![];
        for (msg, case) in &r.violations {
            if seen_msgs.contains(msg) || seen_msgs.len() >= 3 {
                continue;
            }
            seen_msgs.push(msg.clone());
            let p = write_replay(ctx, &r.name, msg, case);
            violations.push((r.name.clone(), msg.clone(), p));
        }
        harness_errors.extend(r.harness_errors.iter().cloned());
        if let Some(sp) = &r.exhaustive {
            exhaustive_spaces.push(format!("{}: {}", r.name, sp));
        }
        per_section.insert(
            r.name.clone(),
            json!({
                "evaluations": r.evaluations,
                "distinct_nontrivial": r.nontrivial_hashes.len(),
                "classes": r.classes,
                "skipped": r.skipped,
                "known_finding_hits": r.known.iter().map(|(k,(n,_))| (k.clone(), *n)).collect::<BTreeMap<_,_>>(),
                "exhaustive_space": r.exhaustive,
            }),
        );
    }

    for (id, (n, msg)) in &known_total {
        let what = ctx
            .known
            .active
            .get(&(ctx.prop.to_string(), id.clone()))
            .cloned()
            .unwrap_or_default();
        println!(
            "KNOWN-FINDING: property={} id={} hits={} {} (e.g. {})",
            ctx.prop,
            id,
            n,
            what,
            truncate(msg, 300)
        );
    }

    let wall = t0.elapsed().as_secs_f64();
    let evidence = json!({
        "property_id": ctx.prop,
        "tier": ctx.tier.name(),
        "seed": ctx.seed,
        "level": "exploration",
        "coverage": {
            "evaluations": evaluations,
            "distinct_nontrivial": distinct_nt,
            "rule": def.rule,
            "samples": samples,
            "sections": per_section,
            "exhaustive_subspaces": exhaustive_spaces,
            "exhaustive": false,
            "corpus_replayed": corpus_replayed,
            "known_finding_hits": known_total.iter().map(|(k,(n,_))| (k.clone(), *n)).collect::<BTreeMap<_,_>>(),
            "harness_errors": harness_errors.len(),
        },
        "assumptions": def.assumptions,
        "wall_s": wall,
        "violations": violations.len(),
    });
    // VERIF_EVIDENCE_DIR redirects the evidence of experimental (scaled) runs
    let evdir = std::env::var("VERIF_EVIDENCE_DIR")
        .map(PathBuf::from)
        .unwrap_or_else(|_| ctx.verif_dir.join("evidence"));
    if only.is_some() && std::env::var("VERIF_EVIDENCE_DIR").is_err() {
        eprintln!("VERIF_ONLY_SECTIONS is for experiments: set VERIF_EVIDENCE_DIR as well");
        return 2;
    }
    let _ = std::fs::create_dir_all(&evdir);
    let evpath = evdir.join(format!("{}.json", ctx.prop));
    if let Err(e) = std::fs::write(&evpath, serde_json::to_string_pretty(&evidence).unwrap()) {
        eprintln!("cannot write evidence file {}: {e}", evpath.display());
        return 2;
    }

    println!(
        "property={} tier={} seed={} evaluations={} distinct_nontrivial={} known_findings={} wall_s={:.1}",
        ctx.prop,
        ctx.tier.name(),
        ctx.seed,
        evaluations,
        distinct_nt,
        known_total.len(),
        wall
    );
    for r in &secs {
        println!(
            "  section {:<18} evals={:<9} nontrivial={:<8} classes={}",
            r.name,
            r.evaluations,
            r.nontrivial_hashes.len(),
            truncate(&serde_json::to_string(&r.classes).unwrap_or_default(), 1500)
        );
        if !r.skipped.is_empty() {
            println!(
                "    skipped: {}",
                serde_json::to_string(&r.skipped).unwrap_or_default()
            );
        }
    }

    if !violations.is_empty() {
        for (sec, msg, path) in &violations {
            println!("  violation in section {sec}: {}", truncate(msg, 2000));
            println!("VIOLATION property={} replay={}", ctx.prop, path.display());
        }
        return 1;
    }
    if !harness_errors.is_empty() {
        for e in &harness_errors {
            println!("HARNESS-ERROR property={} {}", ctx.prop, truncate(e, 3000));
        }
        println!("INCONCLUSIVE property={} harness error", ctx.prop);
        return 2;
    }
    0
}

pub fn truncate(s: &str, n: usize) -> String {
    if s.len() <= n {
        s.to_string()
    } else {
        let mut end = n;
        while !s.is_char_boundary(end) {
            end -= 1;
        }
        format!("{}…", &s[..end])
    }
}

/// Replay a file through the property's sections (strict: known findings are NOT suppressed
/// unless `lenient`).
pub fn replay_file(ctx: &Ctx, def: &PropertyDef, path: &Path, lenient: bool) -> i32 {
    let s = match std::fs::read_to_string(path) {
        Ok(s) => s,
        Err(e) => {
            eprintln!("cannot read {}: {e}", path.display());
            return 2;
        }
    };
    let v: Value = match serde_json::from_str(&s) {
        Ok(v) => v,
        Err(e) => {
            eprintln!("bad JSON in {}: {e}", path.display());
            return 2;
        }
    };
    let sec_name = v.get("section").and_then(|x| x.as_str()).unwrap_or("");
    let Some(case) = v.get("case") else {
        eprintln!("no case in replay file");
        return 2;
    };
    let Some(sec) = def.sections.iter().find(|s| s.name() == sec_name) else {
        eprintln!("unknown section {sec_name}");
        return 2;
    };
    match sec.replay(ctx, case, !lenient) {
        Err(e) => {
            println!("INCONCLUSIVE property={} {}", ctx.prop, e);
            2
        }
        Ok(ReplayOutcome::Pass) => {
            println!("replay: PASS property={} section={}", ctx.prop, sec_name);
            0
        }
        Ok(ReplayOutcome::Known(h)) => {
            for (id, msg) in h {
                println!("KNOWN-FINDING: property={} id={} {}", ctx.prop, id, msg);
            }
            0
        }
        Ok(ReplayOutcome::Violation(msg)) => {
            println!("  violation: {msg}");
            println!("VIOLATION property={} replay={}", ctx.prop, path.display());
            1
        }
    }
}


// ---------------------------------------------------------------------------------------------
// generic fuzz bridge (used by fuzz/fuzz_targets/generic.rs and `qv fuzz-seeds`)

pub struct FuzzHandle {
    pub ctx: Ctx,
    section: Box<dyn SectionDyn>,
}

/// Open one section of one property for byte-driven runs.  Sizes follow the quick tier (small
/// cases suit a fuzzer); known findings are not suppressed.
pub fn fuzz_open(prop: &str, section: &str, verif_dir: &std::path::Path) -> Result<FuzzHandle, String> {
    let Some(sid) = crate::props::ids().into_iter().find(|x| *x == prop) else {
        return Err(format!("unknown property {prop}"));
    };
    let ctx = Ctx {
        prop: sid,
        tier: Tier::Quick,
        seed: std::env::var("VERIF_SEED").ok().and_then(|s| s.parse().ok()).unwrap_or(0),
        verif_dir: verif_dir.to_path_buf(),
        known: Arc::new(KnownFindings::default()),
        scale: 1.0,
    };
    let def = crate::props::get(sid, &ctx).ok_or("no definition")?;
    let names: Vec<String> = def.sections.iter().map(|s| s.name().to_string()).collect();
    let Some(sec) = def.sections.into_iter().find(|s| s.name() == section) else {
        return Err(format!("property {prop} has no section {section} (sections: {names:?})"));
    };
    Ok(FuzzHandle { ctx, section: sec })
}

impl FuzzHandle {
    /// One fuzzer input = the JSON text of a case of this section.
    pub fn one(&self, data: &[u8]) -> FuzzOutcome {
        let Ok(case) = serde_json::from_slice::<Value>(data) else { return FuzzOutcome::NoCase };
        match self.section.replay(&self.ctx, &case, true) {
            Err(e) if e.starts_with("cannot decode case") => FuzzOutcome::NoCase,
            Err(e) => FuzzOutcome::HarnessError(e),
            Ok(ReplayOutcome::Pass) | Ok(ReplayOutcome::Known(_)) => FuzzOutcome::Pass,
            Ok(ReplayOutcome::Violation(msg)) => FuzzOutcome::Violation(
                msg.clone(),
                json!({"property": self.ctx.prop, "section": self.section.name(), "message": msg, "case": case}),
            ),
        }
    }
    /// learn the generator's per-coordinate hull from `n` ordinary cases and hand it to the mutator
    pub fn learn_bounds(&self, n: usize) {
        let cases = self.section.gen_cases(&self.ctx, n);
        crate::fuzzmut::set_bounds(crate::fuzzmut::Bounds::learn(&cases));
    }
    pub fn seeds(&self, n: usize) -> Vec<Vec<u8>> {
        self.section.gen_cases(&self.ctx, n).into_iter().map(|v| v.to_string().into_bytes()).collect()
    }
    /// Run one input; a violation is written as an ordinary JSON replay file and reported by
    /// panicking (which the fuzzer records as a crash).
    pub fn one_or_panic(&self, data: &[u8]) {
        match self.one(data) {
            FuzzOutcome::Pass | FuzzOutcome::NoCase => {}
            FuzzOutcome::HarnessError(e) => {
                // not a violation: make it visible without stopping the campaign
                eprintln!("HARNESS-ERROR property={} {e}", self.ctx.prop);
                let _ = std::fs::write(self.ctx.verif_dir.join("replays").join(format!("{}-fuzz-harness-error.txt", self.ctx.prop)), e);
            }
            FuzzOutcome::Violation(msg, doc) => {
                let dir = self.ctx.verif_dir.join("replays");
                let _ = std::fs::create_dir_all(&dir);
                let mut h = std::collections::hash_map::DefaultHasher::new();
                use std::hash::{Hash, Hasher};
                doc.to_string().hash(&mut h);
                let path = dir.join(format!("{}-fuzz-{}-{:016x}.json", self.ctx.prop, self.section.name(), h.finish()));
                let _ = std::fs::write(&path, serde_json::to_string_pretty(&doc).unwrap_or_default());
                eprintln!("violation (fuzz) in section {}: {msg}", self.section.name());
                eprintln!("VIOLATION property={} replay={}", self.ctx.prop, path.display());
                panic!("violation: {msg}");
            }
        }
    }
}
