//! Structural mutation of serialised cases: the custom mutator behind the generic libFuzzer
//! target.  A fuzzer input is the JSON text of a case; mutating the *value tree* (numbers,
//! booleans, array surgery, copying sub-trees between places with the same key) keeps almost
//! every mutant decodable, so coverage feedback works on the case space itself.

use serde_json::Value;

pub struct Xs(pub u64);
impl Xs {
    pub fn next(&mut self) -> u64 {
        let mut x = self.0 | 1;
        x ^= x << 13;
        x ^= x >> 7;
        x ^= x << 17;
        self.0 = x;
        x.wrapping_mul(0x2545F4914F6CDD1D)
    }
    pub fn below(&mut self, n: usize) -> usize {
        if n == 0 {
            0
        } else {
            (self.next() % n as u64) as usize
        }
    }
}

const INTERESTING: [i64; 28] = [
    0, 1, -1, 2, 3, 4, 5, 7, 8, 15, 16, 31, 32, 63, 64, 65, 127, 128, 255, 256, 1023, 4095, 65535, 65536, 1 << 31, (1 << 32) - 1, i64::MAX, -i64::MAX,
];
const INTERESTING_F: [f64; 12] = [0.0, 1.0, -1.0, 0.5, 0.25, 2.0, 1e-9, 1e9, 1e-300, 1e300, 0.1, 3.141592653589793];

/// Per-coordinate hull of the generator, learned from ordinary generated cases: mutants stay
/// inside it, so the fuzzer explores the same input domain as the proptest sections (a case
/// outside the generator's ranges may lie outside the property's domain and would be a false
/// alarm).  A coordinate is a key path; array positions count as coordinates of their own when the
/// array has the same short length everywhere (a tuple), else they share one coordinate (a list).
#[derive(Default, Debug, Clone)]
pub struct Bounds {
    ints: std::collections::HashMap<String, (i128, i128)>,
    /// the values seen at an integer coordinate, while there are few (<= 32): such a coordinate is
    /// a small set (denominators 1, 2, 4; gate kinds; modes), not an interval
    int_sets: std::collections::HashMap<String, std::collections::BTreeSet<i128>>,
    floats: std::collections::HashMap<String, (f64, f64)>,
    lens: std::collections::HashMap<String, (usize, usize, usize)>, // (min, max, observations)
    strings: std::collections::HashMap<String, Vec<String>>,
    nullable: std::collections::HashSet<String>,
    bools: std::collections::HashMap<String, (bool, bool)>,
    /// sub-trees seen at a coordinate (donors for Option / enum payloads), a few per coordinate
    donors: std::collections::HashMap<String, Vec<Value>>,
}

static BOUNDS: std::sync::OnceLock<Bounds> = std::sync::OnceLock::new();

pub fn set_bounds(b: Bounds) {
    let _ = BOUNDS.set(b);
}

impl Bounds {
    /// is the array at this *coordinate* a tuple (same short length wherever it occurs)?
    fn is_tuple(&self, coord: &str) -> bool {
        matches!(self.lens.get(coord), Some(&(lo, hi, n)) if lo == hi && hi <= 8 && n >= 2)
    }
    /// coordinate of a path: positions inside tuples keep their index, positions inside lists
    /// share one coordinate
    fn coord(&self, p: &Path) -> String {
        let mut out = String::new();
        for s in p {
            match s {
                PathSeg::Key(k) => {
                    out.push('/');
                    out.push_str(k);
                }
                PathSeg::Idx(i) => {
                    if self.is_tuple(&out) {
                        out.push_str(&format!("/#{i}"));
                    } else {
                        out.push_str("/*");
                    }
                }
            }
        }
        out
    }

    pub fn learn(cases: &[Value]) -> Bounds {
        let mut b = Bounds::default();
        // pass 1: array lengths per coordinate, level by level (the coordinate of a deeper array
        // depends on which shallower arrays are tuples)
        let all: Vec<(Value, Vec<Path>)> = cases
            .iter()
            .map(|c| {
                let mut paths = vec![];
                collect(c, &mut vec![], &mut paths);
                (c.clone(), paths)
            })
            .collect();
        let maxdepth = all.iter().flat_map(|(_, ps)| ps.iter().map(|p| p.len())).max().unwrap_or(0);
        for depth in 0..=maxdepth {
            let mut level: std::collections::HashMap<String, (usize, usize, usize)> = Default::default();
            for (c, paths) in &all {
                let mut root = c.clone();
                for p in paths.iter().filter(|p| p.len() == depth) {
                    if let Some(Value::Array(a)) = at(&mut root, p) {
                        let e = level.entry(b.coord(p)).or_insert((usize::MAX, 0, 0));
                        e.0 = e.0.min(a.len());
                        e.1 = e.1.max(a.len());
                        e.2 += 1;
                    }
                }
            }
            b.lens.extend(level);
        }
        // pass 2: value ranges per coordinate
        for c in cases {
            let mut paths = vec![];
            collect(c, &mut vec![], &mut paths);
            let mut root = c.clone();
            for p in &paths {
                let coord = b.coord(p);
                let Some(v) = at(&mut root, p) else { continue };
                match v {
                    Value::Number(n) => {
                        if let Some(i) = n.as_i64().map(|x| x as i128).or(n.as_u64().map(|x| x as i128)) {
                            let e = b.ints.entry(coord.clone()).or_insert((i, i));
                            e.0 = e.0.min(i);
                            e.1 = e.1.max(i);
                            let set = b.int_sets.entry(coord).or_default();
                            if set.len() <= 32 {
                                set.insert(i);
                            }
                        } else if let Some(f) = n.as_f64() {
                            let e = b.floats.entry(coord).or_insert((f, f));
                            e.0 = e.0.min(f);
                            e.1 = e.1.max(f);
                        }
                    }
                    Value::String(s) => {
                        let e = b.strings.entry(coord).or_default();
                        if !e.contains(s) && e.len() < 64 {
                            e.push(s.clone());
                        }
                    }
                    Value::Null => {
                        b.nullable.insert(coord);
                    }
                    Value::Object(_) | Value::Array(_) => {
                        let e = b.donors.entry(coord).or_default();
                        if e.len() < 24 {
                            e.push(v.clone());
                        }
                    }
                    Value::Bool(x) => {
                        let e = b.bools.entry(coord).or_insert((false, false));
                        if *x {
                            e.1 = true;
                        } else {
                            e.0 = true;
                        }
                    }
                }
            }
        }
        b
    }
}

type Path = Vec<PathSeg>;
#[derive(Clone, Debug)]
enum PathSeg {
    Key(String),
    Idx(usize),
}

fn collect(v: &Value, cur: &mut Path, out: &mut Vec<Path>) {
    out.push(cur.clone());
    match v {
        Value::Array(a) => {
            for (i, x) in a.iter().enumerate() {
                cur.push(PathSeg::Idx(i));
                collect(x, cur, out);
                cur.pop();
            }
        }
        Value::Object(o) => {
            for (k, x) in o.iter() {
                cur.push(PathSeg::Key(k.clone()));
                collect(x, cur, out);
                cur.pop();
            }
        }
        _ => {}
    }
}

fn at<'a>(v: &'a mut Value, p: &[PathSeg]) -> Option<&'a mut Value> {
    let mut cur = v;
    for s in p {
        cur = match s {
            PathSeg::Key(k) => cur.get_mut(k.as_str())?,
            PathSeg::Idx(i) => cur.get_mut(*i)?,
        };
    }
    Some(cur)
}


fn clamp_i(x: i128, lo: i128, hi: i128) -> i128 {
    x.max(lo).min(hi)
}

fn num_from(x: i128) -> Value {
    if x >= 0 {
        Value::from(x.min(u64::MAX as i128) as u64)
    } else {
        Value::from(x.max(i64::MIN as i128) as i64)
    }
}

fn mutate_node(root: &mut Value, paths: &[Path], pi: usize, rng: &mut Xs) {
    let Some(b) = BOUNDS.get() else { return };
    let coord = b.coord(&paths[pi]);
    let Some(node) = at(root, &paths[pi]) else { return };
    match node {
        Value::Bool(x) => {
            // only where the generator produces both values
            if b.bools.get(&coord) == Some(&(true, true)) {
                *x = !*x;
            }
        }
        Value::Number(n) => {
            if let Some(set) = b.int_sets.get(&coord).filter(|s| s.len() <= 32) {
                let vals: Vec<i128> = set.iter().copied().collect();
                *node = num_from(vals[rng.below(vals.len())]);
            } else if let Some(&(lo, hi)) = b.ints.get(&coord) {
                let i: i128 = n.as_i64().map(|x| x as i128).or(n.as_u64().map(|x| x as i128)).unwrap_or(lo);
                let r = match rng.below(9) {
                    0 => i + 1,
                    1 => i - 1,
                    2 => i + rng.below(16) as i128 - 8,
                    3 => i * 2,
                    4 => i / 2,
                    5 => -i,
                    6 => INTERESTING[rng.below(INTERESTING.len())] as i128,
                    7 => if rng.below(2) == 0 { lo } else { hi },
                    _ => lo + (rng.next() as i128 % (hi - lo + 1).max(1)),
                };
                *node = num_from(clamp_i(r, lo, hi));
            } else if let (Some(f), Some(&(lo, hi))) = (n.as_f64(), b.floats.get(&coord)) {
                let r = match rng.below(7) {
                    0 => f * 2.0,
                    1 => f / 2.0,
                    2 => -f,
                    3 => f + 1.0,
                    4 => INTERESTING_F[rng.below(INTERESTING_F.len())],
                    5 => if rng.below(2) == 0 { lo } else { hi },
                    _ => f * (1.0 + 1e-9),
                };
                if r.is_finite() {
                    *node = Value::from(r.max(lo).min(hi));
                }
            }
        }
        Value::String(_) => {
            if let Some(pool) = b.strings.get(&coord) {
                *node = Value::String(pool[rng.below(pool.len())].clone());
            }
        }
        Value::Null => {
            if let Some(d) = b.donors.get(&coord) {
                *node = d[rng.below(d.len())].clone();
            }
        }
        Value::Array(a) => {
            let (lo, hi) = match b.lens.get(&coord) {
                Some(&(lo, hi, _)) => (lo, hi),
                None => (a.len(), a.len()),
            };
            if b.is_tuple(&coord) || lo == hi {
                // a tuple (or a list of fixed length): never change its length
                if a.len() >= 2 && rng.below(4) == 0 {
                    // swapping is only safe between positions of the same coordinate: skip
                }
                return;
            }
            match rng.below(6) {
                0 if a.len() > lo => {
                    let i = rng.below(a.len());
                    a.remove(i);
                }
                1 if !a.is_empty() && a.len() < hi => {
                    let i = rng.below(a.len());
                    let x = a[i].clone();
                    let j = rng.below(a.len() + 1);
                    a.insert(j, x);
                }
                2 if a.len() >= 2 => {
                    let (i, j) = (rng.below(a.len()), rng.below(a.len()));
                    a.swap(i, j);
                }
                3 if a.len() > lo => {
                    let k = lo + rng.below(a.len() - lo);
                    a.truncate(k);
                }
                4 if a.len() < hi => {
                    // an element seen at this list in ordinary cases
                    let mut child = paths[pi].clone();
                    child.push(PathSeg::Idx(0));
                    let cc = b.coord(&child);
                    if let Some(d) = b.donors.get(&cc) {
                        let x = d[rng.below(d.len())].clone();
                        let j = rng.below(a.len() + 1);
                        a.insert(j, x);
                    } else if let Some(&(l, h)) = b.ints.get(&cc) {
                        let x = l + (rng.next() as i128 % (h - l + 1).max(1));
                        let j = rng.below(a.len() + 1);
                        a.insert(j, num_from(x));
                    }
                }
                _ if !a.is_empty() => {
                    let i = rng.below(a.len());
                    let k = 1 + rng.below((a.len() - i).min(4));
                    let slice: Vec<Value> = a[i..i + k].to_vec();
                    for x in slice {
                        if a.len() < hi {
                            a.push(x);
                        }
                    }
                }
                _ => {}
            }
        }
        Value::Object(_) => {
            // an enum payload / Option / record: replace by one seen at this coordinate, or make
            // an Option empty where empties were seen
            if b.nullable.contains(&coord) && rng.below(3) == 0 {
                *node = Value::Null;
            } else if let Some(d) = b.donors.get(&coord) {
                if rng.below(2) == 0 {
                    *node = d[rng.below(d.len())].clone();
                }
            }
        }
    }
}

/// Mutate the JSON text in `data[..size]` in place; returns the new size (0 < size <= max).
pub fn mutate(data: &mut [u8], size: usize, max_size: usize, seed: u32) -> usize {
    let mut rng = Xs(seed as u64 ^ 0x9E3779B97F4A7C15);
    let Ok(mut v) = serde_json::from_slice::<Value>(&data[..size]) else {
        // not a case: hand back a trivial document so the campaign keeps its corpus valid
        let s = b"null";
        data[..s.len()].copy_from_slice(s);
        return s.len();
    };
    for _ in 0..(1 + rng.below(3)) {
        let mut paths = vec![];
        collect(&v, &mut vec![], &mut paths);
        if paths.is_empty() {
            break;
        }
        // prefer leaves and arrays over the root
        let pi = rng.below(paths.len());
        mutate_node(&mut v, &paths, pi, &mut rng);
    }
    let out = v.to_string().into_bytes();
    if out.is_empty() || out.len() > max_size || out.len() > data.len() {
        return size;
    }
    data[..out.len()].copy_from_slice(&out);
    out.len()
}

/// Splice: copy a random sub-tree of `other` over a place of `data` with the same innermost key.
pub fn crossover(a: &[u8], b: &[u8], out: &mut [u8], seed: u32) -> usize {
    let mut rng = Xs(seed as u64 ^ 0xD1B54A32D192ED03);
    let (Ok(mut va), Ok(mut vb)) = (serde_json::from_slice::<Value>(a), serde_json::from_slice::<Value>(b)) else {
        let n = a.len().min(out.len());
        out[..n].copy_from_slice(&a[..n]);
        return n;
    };
    let (mut pa, mut pb) = (vec![], vec![]);
    collect(&va, &mut vec![], &mut pa);
    collect(&vb, &mut vec![], &mut pb);
    let Some(bd) = BOUNDS.get() else {
        let n = a.len().min(out.len());
        out[..n].copy_from_slice(&a[..n]);
        return n;
    };
    for _ in 0..8 {
        let i = rng.below(pa.len());
        let ci = bd.coord(&pa[i]);
        let cands: Vec<usize> = (0..pb.len()).filter(|&j| bd.coord(&pb[j]) == ci).collect();
        if cands.is_empty() {
            continue;
        }
        let j = cands[rng.below(cands.len())];
        if let (Some(dst), Some(src)) = (at(&mut va, &pa[i]), at(&mut vb, &pb[j])) {
            *dst = src.clone();
            break;
        }
    }
    let s = va.to_string().into_bytes();
    if s.len() > out.len() {
        let n = a.len().min(out.len());
        out[..n].copy_from_slice(&a[..n]);
        return n;
    }
    out[..s.len()].copy_from_slice(&s);
    s.len()
}
