//! Checking the checkers: the harness oracles are validated against each other and against
//! textbook identities.  A disagreement is a harness bug (exit 2), never a reported violation.

use crate::gen::circ::{circ_spec, unitary_kinds, CircParams};
use crate::gen::diag::{diag_spec, DiagParams, Palette};
use crate::oracle::csim::{self, GK};
use crate::oracle::diag::{Diag, MScalar, VK};
use crate::oracle::ring::{tensors_close, Ring, Zw, C64};
use crate::oracle::zxeval::{eval, eval_literal, EvalErr};
use proptest::strategy::{Strategy, ValueTree};
use proptest::test_runner::{Config, RngAlgorithm, TestRng, TestRunner};

fn runner(seed: u64, tag: u8) -> TestRunner {
    let mut s = [tag; 32];
    s[..8].copy_from_slice(&seed.to_le_bytes());
    TestRunner::new_with_rng(
        Config::default(),
        TestRng::from_seed(RngAlgorithm::ChaCha, &s),
    )
}

fn fail(msg: String) -> i32 {
    println!("SELFTEST-FAILURE {msg}");
    2
}

fn z(k: i64) -> Zw {
    Zw::omega_pow(k)
}

fn identities() -> Result<(), String> {
    // ring sanity
    let s2 = Zw::sqrt2_pow(1);
    if s2.mul(&s2) != Zw::int(2) {
        return Err("sqrt2^2 != 2".into());
    }
    if Zw::sqrt2_pow(-1).mul(&Zw::sqrt2_pow(1)) != Zw::ONE {
        return Err("sqrt2^-1 * sqrt2 != 1".into());
    }
    if z(1).mul(&z(7)) != Zw::ONE || z(4) != Zw::int(-1) {
        return Err("omega arithmetic".into());
    }
    for k in 0..8 {
        let c = z(k).to_c64();
        let a = std::f64::consts::PI * (k as f64) / 4.0;
        if (c.re - a.cos()).abs() > 1e-15 || (c.im - a.sin()).abs() > 1e-15 {
            return Err(format!("omega^{k} float value"));
        }
        if z(k).conj() != z(-k) {
            return Err("conj".into());
        }
    }
    // single spiders
    let mut d = Diag::empty();
    let v = d.add_vert(VK::Z, (1, 4));
    let o = d.add_vert(VK::B, (0, 1));
    d.add_edge(v, o, false);
    d.outputs.push(o);
    let t = eval::<Zw>(&d).map_err(|e| format!("{e:?}"))?;
    if t.data != vec![Zw::ONE, z(1)] {
        return Err(format!("Z(pi/4) state: {:?}", t.data));
    }
    d.verts[v].kind = VK::X;
    d.verts[v].phase = (1, 1);
    let t = eval::<Zw>(&d).map_err(|e| format!("{e:?}"))?;
    // X(pi) with one leg = sqrt2 |1>
    if t.data != vec![Zw::ZERO, Zw::sqrt2_pow(1)] {
        return Err(format!("X(pi) state: {:?}", t.data));
    }
    // Hadamard wire
    let mut d = Diag::empty();
    let i = d.add_vert(VK::B, (0, 1));
    let o = d.add_vert(VK::B, (0, 1));
    d.add_edge(i, o, true);
    d.inputs.push(i);
    d.outputs.push(o);
    let t = eval::<Zw>(&d).map_err(|e| format!("{e:?}"))?;
    let h = Zw::sqrt2_pow(-1);
    if t.data != vec![h, h, h, h.neg()] {
        return Err(format!("Hadamard wire: {:?}", t.data));
    }
    // CNOT = sqrt2 * (Z--X)
    let mut d = Diag::empty();
    let i0 = d.add_vert(VK::B, (0, 1));
    let i1 = d.add_vert(VK::B, (0, 1));
    let a = d.add_vert(VK::Z, (0, 1));
    let b = d.add_vert(VK::X, (0, 1));
    let o0 = d.add_vert(VK::B, (0, 1));
    let o1 = d.add_vert(VK::B, (0, 1));
    d.add_edge(i0, a, false);
    d.add_edge(i1, b, false);
    d.add_edge(a, b, false);
    d.add_edge(a, o0, false);
    d.add_edge(b, o1, false);
    d.inputs = vec![i0, i1];
    d.outputs = vec![o0, o1];
    d.scalar = MScalar::Exact(Zw::sqrt2_pow(1));
    let t = eval::<Zw>(&d).map_err(|e| format!("{e:?}"))?;
    for inp in 0..4usize {
        for out in 0..4usize {
            let expect = if out == (inp ^ ((inp >> 1) & 1)) {
                Zw::ONE
            } else {
                Zw::ZERO
            };
            if t.data[inp * 4 + out] != expect {
                return Err(format!("CNOT entry in={inp} out={out}: {:?}", t.data[inp * 4 + out]));
            }
        }
    }
    // Hopf law: Z and X connected by two parallel edges = disconnected (scalar 1/2); parallel edges
    // are not representable in a simple graph, so use the Euler decomposition instead:
    // H = e^{-i pi/4} Z(pi/2) X(pi/2) Z(pi/2)
    let mut d = Diag::empty();
    let i = d.add_vert(VK::B, (0, 1));
    let a = d.add_vert(VK::Z, (1, 2));
    let b = d.add_vert(VK::X, (1, 2));
    let c = d.add_vert(VK::Z, (1, 2));
    let o = d.add_vert(VK::B, (0, 1));
    d.add_edge(i, a, false);
    d.add_edge(a, b, false);
    d.add_edge(b, c, false);
    d.add_edge(c, o, false);
    d.inputs = vec![i];
    d.outputs = vec![o];
    d.scalar = MScalar::Exact(z(-1));
    let t = eval::<Zw>(&d).map_err(|e| format!("{e:?}"))?;
    if t.data != vec![h, h, h, h.neg()] {
        return Err(format!("Euler decomposition of H: {:?}", t.data));
    }
    // pi-copy: X(pi) into Z(a) with 2 outputs = e^{ia} (X(pi) x X(pi)) after Z(-a)... check simple
    // instance: X(pi) state through Z(pi/4) copier gives e^{i pi/4}|11>
    let mut d = Diag::empty();
    let x = d.add_vert(VK::X, (1, 1));
    let zz = d.add_vert(VK::Z, (1, 4));
    let o0 = d.add_vert(VK::B, (0, 1));
    let o1 = d.add_vert(VK::B, (0, 1));
    d.add_edge(x, zz, false);
    d.add_edge(zz, o0, false);
    d.add_edge(zz, o1, false);
    d.outputs = vec![o0, o1];
    let t = eval::<Zw>(&d).map_err(|e| format!("{e:?}"))?;
    if t.data != vec![Zw::ZERO, Zw::ZERO, Zw::ZERO, Zw::sqrt2_pow(1).mul(&z(1))] {
        return Err(format!("pi copy: {:?}", t.data));
    }
    Ok(())
}

pub fn run(seed: u64) -> i32 {
    if let Err(e) = identities() {
        return fail(format!("textbook identity: {e}"));
    }
    // (A) == (B), exact and float
    let mut n_ab = 0;
    for (tag, pal) in [(1u8, Palette::ExactT), (2u8, Palette::General)] {
        let mut r = runner(seed, tag);
        let strat = diag_spec(DiagParams::general(5, 3, pal));
        for _ in 0..1500 {
            let spec = strat.new_tree(&mut r).unwrap().current();
            let d = spec.to_diag();
            if d.edges.len() + d.edges.iter().filter(|e| e.2).count() > 14 {
                continue;
            }
            n_ab += 1;
            if pal == Palette::ExactT && d.scalar.is_exact() {
                let a = eval_literal::<Zw>(&d);
                let b = eval::<Zw>(&d);
                match (a, b) {
                    (Ok(a), Ok(b)) => {
                        if a != b {
                            return fail(format!(
                                "literal and bucket evaluators disagree (exact) on {}",
                                serde_json::to_string(&d).unwrap()
                            ));
                        }
                        // exact vs float instantiation
                        let bf = eval::<C64>(&d).unwrap();
                        let af: Vec<C64> = a.data.iter().map(|z| C64(z.to_c64())).collect();
                        if let Err(e) = tensors_close(&af, &bf.data, 1e-12, 1e-12 * bf.scale.max(1.0)) {
                            return fail(format!("exact vs float evaluator: {e}"));
                        }
                    }
                    (Err(EvalErr::TooBig), _) | (_, Err(EvalErr::TooBig)) => {}
                    (a, b) => {
                        return fail(format!(
                            "evaluator error on generated diagram: {:?} / {:?}",
                            a.err(),
                            b.err()
                        ))
                    }
                }
            } else {
                let a = eval_literal::<C64>(&d);
                let b = eval::<C64>(&d);
                match (a, b) {
                    (Ok(a), Ok(b)) => {
                        if let Err(e) = tensors_close(&a.data, &b.data, 1e-12, 1e-12 * b.scale.max(1.0)) {
                            return fail(format!(
                                "literal and bucket evaluators disagree (float): {e} on {}",
                                serde_json::to_string(&d).unwrap()
                            ));
                        }
                    }
                    (Err(EvalErr::TooBig), _) | (_, Err(EvalErr::TooBig)) => {}
                    (a, b) => {
                        return fail(format!(
                            "evaluator error on generated diagram: {:?} / {:?}",
                            a.err(),
                            b.err()
                        ))
                    }
                }
            }
        }
    }
    // circuits: zxeval(harness translation) == csim; unitarity; exact == float
    let mut r = runner(seed, 3);
    let kinds: Vec<(u32, GK)> = unitary_kinds();
    let strat = circ_spec(CircParams {
        min_q: 1,
        max_q: 4,
        max_gates: 14,
        kinds,
        palette: Palette::ExactT,
        max_var: 0,
    });
    let mut n_c = 0;
    for _ in 0..1500 {
        let c = strat.new_tree(&mut r).unwrap().current().to_circ();
        let t = match csim::simulate::<Zw>(&c) {
            Ok(t) => t,
            Err(e) => return fail(format!("simulate: {e:?}")),
        };
        n_c += 1;
        // unitarity
        let u = csim::unitary::<Zw>(&c).unwrap();
        let p = csim::matmul(&u, &csim::dagger(&u));
        for i in 0..p.len() {
            for j in 0..p.len() {
                let e = if i == j { Zw::ONE } else { Zw::ZERO };
                if p[i][j] != e {
                    return fail(format!(
                        "simulator produced a non-unitary matrix for {}",
                        serde_json::to_string(&c).unwrap()
                    ));
                }
            }
        }
        let tf = csim::simulate::<C64>(&c).unwrap();
        let ef: Vec<C64> = t.data.iter().map(|z| C64(z.to_c64())).collect();
        if let Err(e) = tensors_close(&ef, &tf.data, 1e-12, 1e-12) {
            return fail(format!("exact vs float simulator: {e}"));
        }
        if let Some(d) = csim::to_diag(&c) {
            match eval::<Zw>(&d) {
                Ok(td) => {
                    if td.data != t.data {
                        return fail(format!(
                            "evaluator and simulator disagree on {}",
                            serde_json::to_string(&c).unwrap()
                        ));
                    }
                }
                Err(EvalErr::TooBig) => {}
                Err(e) => return fail(format!("evaluator on circuit diagram: {e:?}")),
            }
        }
    }
    // compound gates against their textbook expansions
    {
        use csim::{Circ, MGate};
        let ccz = Circ {
            n: 3,
            gates: vec![MGate::new(GK::Ccz, vec![0, 1, 2])],
        };
        let t = csim::simulate::<Zw>(&ccz).unwrap();
        for i in 0..8usize {
            for o in 0..8usize {
                let e = if i != o {
                    Zw::ZERO
                } else if i == 7 {
                    Zw::int(-1)
                } else {
                    Zw::ONE
                };
                if t.data[i * 8 + o] != e {
                    return fail("CCZ matrix".into());
                }
            }
        }
        // Toffoli = H_t CCZ H_t
        let a = Circ {
            n: 3,
            gates: vec![MGate::new(GK::Ccx, vec![2, 0, 1])],
        };
        let b = Circ {
            n: 3,
            gates: vec![
                MGate::new(GK::H, vec![1]),
                MGate::new(GK::Ccz, vec![2, 0, 1]),
                MGate::new(GK::H, vec![1]),
            ],
        };
        if csim::simulate::<Zw>(&a).unwrap() != csim::simulate::<Zw>(&b).unwrap() {
            return fail("Toffoli != H CCZ H".into());
        }
        // swap = 3 cnots
        let a = Circ {
            n: 2,
            gates: vec![MGate::new(GK::Swap, vec![0, 1])],
        };
        let b = Circ {
            n: 2,
            gates: vec![
                MGate::new(GK::Cx, vec![0, 1]),
                MGate::new(GK::Cx, vec![1, 0]),
                MGate::new(GK::Cx, vec![0, 1]),
            ],
        };
        if csim::simulate::<Zw>(&a).unwrap() != csim::simulate::<Zw>(&b).unwrap() {
            return fail("SWAP != 3 CNOT".into());
        }
        // parity phase = CNOT ladder
        let a = Circ {
            n: 3,
            gates: vec![MGate::ph(GK::Pp, vec![2, 0, 1], (1, 4))],
        };
        let b = Circ {
            n: 3,
            gates: vec![
                MGate::new(GK::Cx, vec![2, 1]),
                MGate::new(GK::Cx, vec![0, 1]),
                MGate::ph(GK::Rz, vec![1], (1, 4)),
                MGate::new(GK::Cx, vec![0, 1]),
                MGate::new(GK::Cx, vec![2, 1]),
            ],
        };
        if csim::simulate::<Zw>(&a).unwrap() != csim::simulate::<Zw>(&b).unwrap() {
            return fail("parity phase != CNOT ladder".into());
        }
    }
    println!("selftest ok: {n_ab} diagrams (literal vs bucket evaluator), {n_c} circuits (simulator unitarity, exact vs float, evaluator vs simulator), textbook identities");
    0
}
