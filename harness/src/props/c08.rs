//! C08 — tensor evaluation of diagrams and circuits agrees with the reference semantics; the
//! comparison helpers decide exactly what they claim.

use super::common::*;
use crate::engine::{Ctx, Obs, PropertyDef, Section};
use crate::gen::circ::{circ_spec, unitary_kinds, CircParams, CircSpec};
use crate::gen::diag::{diag_spec, DiagParams, DiagSpec, Palette};
use crate::oracle::csim::{self, GK};
use crate::oracle::diag::{build, mscalar_to_q, Diag, MScalar, VK};
use crate::oracle::ring::{proportional_exact, Ring, Zw, C64};
use ndarray::{Array, IxDyn};
use proptest::prelude::*;
use quizx::scalar::Scalar4;
use quizx::tensor::{CompareTensors, Tensor4, ToTensor};
use serde::{Deserialize, Serialize};

fn check_backend<G: quizx::graph::GraphLike>(
    d: &Diag,
    spec: &DiagSpec,
    truth: &Truth,
    name: &str,
) -> Result<(), String> {
    let (g, _) = build::<G>(d, &spec.plan);
    let t4 = guarded(&format!("{name}: to_tensor4"), || g.to_tensor4())?;
    if t4.ndim() != truth.rank() {
        return Err(format!(
            "{name}: to_tensor4 has rank {}, expected {}",
            t4.ndim(),
            truth.rank()
        ));
    }
    let got = tensor4_entries(&t4)?;
    entries_match(&got, truth, truth.is_exact(), REL_TOL)
        .map_err(|e| format!("{name}: to_tensor4: {e}"))?;
    let tf = guarded(&format!("{name}: to_tensorf"), || g.to_tensorf())?;
    if tf.ndim() != truth.rank() {
        return Err(format!("{name}: to_tensorf has rank {}", tf.ndim()));
    }
    let gotf: Vec<C64> = tf.iter().map(|c| C64(*c)).collect();
    crate::oracle::ring::tensors_close(&gotf, &truth.to_float(), REL_TOL, truth.noise())
        .map_err(|e| format!("{name}: to_tensorf: {e}"))?;
    Ok(())
}

fn check_graph(spec: &DiagSpec, obs: &mut Obs) -> Result<(), String> {
    let d = spec.to_diag();
    // tensor evaluation reads the stored phases: boolean variables on spiders are annotations
    // that only take effect when values are substituted.  The generated parities have no
    // constant term, so "annotations are ignored" and "every variable false" are the same
    // reading here (with a constant term they differ, and quizx ignores the annotation - an
    // experiment showed it; which reading is meant is not specified, so that is not checked)
    obs.class_if(d.has_vars(), "with-variables");
    let truth = match truth_of(&d.instantiate(&|_| false)) {
        Ok(t) => t,
        Err(crate::oracle::zxeval::EvalErr::TooBig) => {
            obs.skip("oracle-too-big");
            return Ok(());
        }
        Err(e) => panic!("generator produced a diagram the oracle rejects: {e:?}"),
    };
    let has_h = d.edges.iter().any(|e| e.2);
    let has_deg3 = (0..d.verts.len()).any(|v| d.verts[v].kind != VK::B && d.degree(v) >= 3);
    if has_h && has_deg3 {
        obs.nontrivial();
    }
    obs.class_if(truth.is_exact(), "exact");
    obs.class_if(!truth.is_exact(), "float");
    obs.class_if(d.inputs.is_empty() && d.outputs.is_empty(), "closed");
    obs.class_if(d.verts.iter().any(|v| v.kind == VK::X), "has-x");
    obs.class_if(!spec.wires.is_empty(), "bnd-bnd-wire");
    obs.class_if(
        (0..d.verts.len()).any(|v| d.verts[v].kind != VK::B && d.degree(v) == 0),
        "isolated-spider",
    );
    obs.class_if(!spec.plan.gaps.is_empty(), "id-holes");
    check_backend::<quizx::vec_graph::Graph>(&d, spec, &truth, "vec")?;
    check_backend::<quizx::hash_graph::Graph>(&d, spec, &truth, "hash")?;
    Ok(())
}

fn tensor_supported_kinds() -> Vec<(u32, GK)> {
    unitary_kinds()
        .into_iter()
        .filter(|(_, k)| *k != GK::Pp)
        .collect()
}

fn check_circuit(spec: &CircSpec, obs: &mut Obs) -> Result<(), String> {
    let c = spec.to_circ();
    let qc = c.to_quizx();
    let exact = c.all_phases_quarter();
    obs.class_if(exact, "exact");
    obs.class_if(!exact, "float");
    for g in &c.gates {
        obs.class_if(g.k == GK::Xcx, "xcx");
        obs.class_if(g.k == GK::Swap, "swap");
        obs.class_if(g.k == GK::Ccx || g.k == GK::Ccz, "ccx/ccz");
    }
    if c.gates.iter().filter(|g| g.k.is_entangling()).count() >= 1 && c.gates.len() >= 3 {
        obs.nontrivial();
    }
    let has_xcx = c.gates.iter().any(|g| g.k == GK::Xcx);
    let t4 = guarded("Circuit::to_tensor4", || qc.to_tensor4())?;
    let got = tensor4_entries(&t4)?;
    let truth = if exact {
        Truth::Exact(csim::simulate::<Zw>(&c).expect("simulate"))
    } else {
        Truth::Float(csim::simulate::<C64>(&c).expect("simulate"))
    };
    if t4.ndim() != 2 * c.n {
        return Err(format!("circuit tensor has rank {}", t4.ndim()));
    }
    let r = entries_match(&got, &truth, exact, REL_TOL);
    if let Err(e) = r {
        if has_xcx {
            // classifier for the XCX finding: the tensor equals that of the circuit with every XCX
            // gate deleted (the evaluator uses the gate's own zero phase)
            let mut c2 = c.clone();
            c2.gates.retain(|g| g.k != GK::Xcx);
            let t2 = if exact {
                Truth::Exact(csim::simulate::<Zw>(&c2).unwrap())
            } else {
                Truth::Float(csim::simulate::<C64>(&c2).unwrap())
            };
            if entries_match(&got, &t2, exact, REL_TOL).is_ok() {
                return obs.known(
                    "xcx-tensor-identity",
                    format!("Circuit::to_tensor treats XCX as the identity: {e}"),
                );
            }
        }
        return Err(format!("Circuit::to_tensor4: {e}"));
    }
    let tf = guarded("Circuit::to_tensorf", || qc.to_tensorf())?;
    let gotf: Vec<C64> = tf.iter().map(|c| C64(*c)).collect();
    crate::oracle::ring::tensors_close(&gotf, &truth.to_float(), REL_TOL, truth.noise())
        .map_err(|e| format!("Circuit::to_tensorf: {e}"))?;
    Ok(())
}

// ------------------------------------------------------------------------------------------
// helpers: scalar_eq on explicit tensors

#[derive(Clone, Debug, Serialize, Deserialize)]
pub struct HelperCase {
    pub rank: usize,
    pub entries: Vec<[i8; 4]>,
    pub exps: Vec<i8>,
    /// 0: (t, lambda t)   1: (t, t with one entry changed)   2: (t, lambda t with one entry changed)
    /// 3: (t, independent u)  4: (0, t)  5: (0,0)  6: different shapes  7: (t,t)
    pub relation: u8,
    pub lambda: [i8; 4],
    pub lambda_exp: i8,
    pub pos: u16,
    pub delta: [i8; 4],
    pub other: Vec<[i8; 4]>,
    /// memory layouts of the two tensors (a: layout % 3, b: layout / 3)
    #[serde(default)]
    pub layout: u8,
}

fn zw_of(c: &[i8; 4], e: i8) -> Zw {
    Zw::new(
        [c[0] as i128, c[1] as i128, c[2] as i128, c[3] as i128],
        e as i32,
    )
}

fn to_tensor4(v: &[Zw], rank: usize) -> Tensor4 {
    let data: Vec<Scalar4> = v.iter().map(|z| mscalar_to_q(&MScalar::Exact(*z))).collect();
    Array::from_shape_vec(IxDyn(&vec![2; rank]), data).unwrap()
}

/// the same logical tensor in another memory layout: 1 = column-major (all axes reversed),
/// 2 = axes permuted by a rotation; built so that indexing gives the same entries as layout 0
fn to_tensor4_layout(v: &[Zw], rank: usize, layout: u8) -> Tensor4 {
    if layout % 3 == 0 || rank < 2 {
        return to_tensor4(v, rank);
    }
    let axes: Vec<usize> = if layout % 3 == 1 {
        (0..rank).rev().collect()
    } else {
        (0..rank).map(|k| (k + 1) % rank).collect()
    };
    // result axis k = axis axes[k] of m, so m[j] = l[i] with i[k] = j[axes[k]]
    let n = 1usize << rank;
    let mut m = vec![Zw::ZERO; n];
    for jflat in 0..n {
        let j: Vec<usize> = (0..rank).map(|a| (jflat >> (rank - 1 - a)) & 1).collect();
        let mut iflat = 0usize;
        for k in 0..rank {
            iflat = (iflat << 1) | j[axes[k]];
        }
        m[jflat] = v[iflat];
    }
    to_tensor4(&m, rank).permuted_axes(IxDyn(&axes))
}

fn check_helper(c: &HelperCase, obs: &mut Obs) -> Result<(), String> {
    let rank = c.rank.min(4);
    let n = 1usize << rank;
    let get = |v: &Vec<[i8; 4]>, i: usize| v.get(i).copied().unwrap_or([0; 4]);
    let t: Vec<Zw> = (0..n)
        .map(|i| zw_of(&get(&c.entries, i), c.exps.get(i).copied().unwrap_or(0)))
        .collect();
    let lam = zw_of(&c.lambda, c.lambda_exp);
    let pos = crate::gen::idx(c.pos, n);
    let (a, b, rb): (Vec<Zw>, Vec<Zw>, usize) = match c.relation % 8 {
        0 => (t.clone(), t.iter().map(|x| x.mul(&lam)).collect(), rank),
        1 => {
            let mut u = t.clone();
            u[pos] = u[pos].add(&zw_of(&c.delta, 0));
            (t.clone(), u, rank)
        }
        2 => {
            let mut u: Vec<Zw> = t.iter().map(|x| x.mul(&lam)).collect();
            u[pos] = u[pos].add(&zw_of(&c.delta, 0));
            (t.clone(), u, rank)
        }
        3 => (
            t.clone(),
            (0..n).map(|i| zw_of(&get(&c.other, i), 0)).collect(),
            rank,
        ),
        4 => (vec![Zw::ZERO; n], t.clone(), rank),
        5 => (vec![Zw::ZERO; n], vec![Zw::ZERO; n], rank),
        6 => {
            let r2 = if rank == 0 { 1 } else { rank - 1 };
            (
                t.clone(),
                (0..(1usize << r2)).map(|i| get(&c.other, i)).map(|x| zw_of(&x, 0)).collect(),
                r2,
            )
        }
        _ => (t.clone(), t.clone(), rank),
    };
    let ta = to_tensor4_layout(&a, rank, c.layout % 3);
    let tb = to_tensor4_layout(&b, rb, c.layout / 3);
    obs.class_if((c.layout % 3 != 0 && rank >= 2) || (c.layout / 3 % 3 != 0 && rb >= 2), "non-standard-memory-layout");
    // the layouts are invisible to indexing
    for (t, v, r) in [(&ta, &a, rank), (&tb, &b, rb)] {
        for (flat, want) in v.iter().enumerate() {
            let ix: Vec<usize> = (0..r).map(|k| (flat >> (r - 1 - k)) & 1).collect();
            if crate::oracle::diag::read_scalar(&t[IxDyn(&ix)]) != MScalar::Exact(*want) {
                return Err("harness: layout construction changed the logical tensor".into());
            }
        }
    }
    let truth_prop = rank == rb && proportional_exact(&a, &b);
    let truth_eq = rank == rb && a == b;
    let first_a = a.iter().find(|x| !x.is_zero());
    let first_b = b.iter().find(|x| !x.is_zero());
    if first_a.is_some() && first_a == first_b && !truth_eq {
        obs.class("first-nonzero-equal-but-different");
        obs.nontrivial();
    }
    if truth_prop && !truth_eq {
        obs.class("proportional-not-equal");
        obs.nontrivial();
    }
    obs.class_if(truth_eq, "equal");
    obs.class_if(!truth_prop, "not-proportional");
    let got = guarded("scalar_eq", || Tensor4::scalar_eq(&ta, &tb))?;
    if got != truth_prop {
        return Err(format!(
            "scalar_eq returned {got}, but proportional-up-to-nonzero-scalar is {truth_prop}; a={a:?} b={b:?}"
        ));
    }
    let got2 = guarded("scalar_eq (swapped)", || Tensor4::scalar_eq(&tb, &ta))?;
    if got2 != truth_prop {
        return Err(format!(
            "scalar_eq(b,a) returned {got2}, but proportional-up-to-nonzero-scalar is {truth_prop}; a={a:?} b={b:?}"
        ));
    }
    let eq = ta == tb;
    if eq != truth_eq {
        return Err(format!("tensor == returned {eq}, truth {truth_eq}"));
    }
    Ok(())
}

// ------------------------------------------------------------------------------------------
// compare / scalar_compare on pairs of diagrams

#[derive(Clone, Debug, Serialize, Deserialize)]
pub struct CompareCase {
    pub a: DiagSpec,
    /// 0: same, 1: scalar multiplied by omega^k sqrt2^p, 2: one phase changed, 3: independent
    pub relation: u8,
    pub k: u8,
    pub p: i8,
    pub pos: u16,
    pub b: DiagSpec,
}

fn check_compare(c: &CompareCase, obs: &mut Obs) -> Result<(), String> {
    let da = c.a.to_diag();
    let mut db = match c.relation % 4 {
        3 => c.b.to_diag(),
        _ => da.clone(),
    };
    match c.relation % 4 {
        1 => {
            if let MScalar::Exact(z) = &db.scalar {
                db.scalar = MScalar::Exact(
                    z.mul(&Zw::omega_pow(c.k as i64))
                        .mul(&Zw::sqrt2_pow(c.p as i32)),
                );
            }
        }
        2 => {
            let sp: Vec<usize> = (0..db.verts.len())
                .filter(|&i| db.verts[i].kind != VK::B)
                .collect();
            if !sp.is_empty() {
                let v = sp[crate::gen::idx(c.pos, sp.len())];
                let (n, dd) = db.verts[v].phase;
                db.verts[v].phase = crate::oracle::diag::norm_phase((n * 4 + dd * (1 + (c.k % 7) as i64), dd * 4));
            }
        }
        _ => {}
    }
    let (Ok(ta), Ok(tb)) = (
        crate::oracle::zxeval::eval::<Zw>(&da),
        crate::oracle::zxeval::eval::<Zw>(&db),
    ) else {
        obs.skip("oracle");
        return Ok(());
    };
    let same_shape = ta.n_in + ta.n_out == tb.n_in + tb.n_out;
    let truth_eq = same_shape && ta.data == tb.data;
    let truth_prop = same_shape && proportional_exact(&ta.data, &tb.data);
    obs.class_if(truth_eq, "equal");
    obs.class_if(truth_prop && !truth_eq, "proportional-not-equal");
    obs.class_if(!truth_prop, "different");
    if !truth_eq {
        obs.nontrivial();
    }
    let (ga, _) = build::<quizx::vec_graph::Graph>(&da, &c.a.plan);
    let (gb, _) = build::<quizx::hash_graph::Graph>(&db, &c.b.plan);
    let r1 = guarded("compare", || Tensor4::compare(&ga, &gb))?;
    if r1 != truth_eq {
        return Err(format!("compare returned {r1}, tensors equal is {truth_eq}"));
    }
    let r2 = guarded("scalar_compare", || Tensor4::scalar_compare(&ga, &gb))?;
    if r2 != truth_prop {
        return Err(format!(
            "scalar_compare returned {r2}, proportional is {truth_prop}"
        ));
    }
    Ok(())
}

pub fn def(ctx: &Ctx) -> PropertyDef {
    let t = ctx.tier;
    let ms = t.pick(8, 11);
    let sections = vec![
        Section::random(
            "graph-exact",
            ctx.cases(6000, 120000),
            move || {
                let mut p = DiagParams::general(ms, 4, Palette::ExactT);
                p.max_vars = 3;
                p.var_prob = 12;
                diag_spec(p)
            },
            check_graph,
        ),
        Section::random(
            "graph-general",
            ctx.cases(3000, 60000),
            move || diag_spec(DiagParams::general(ms, 4, Palette::General)),
            check_graph,
        ),
        Section::random_sharded(
            "circuit",
            ctx.cases(3000, 60000),
            8,
            move || {
                circ_spec(CircParams {
                    min_q: 1,
                    max_q: t.pick(4, 5),
                    max_gates: t.pick(14, 24),
                    kinds: tensor_supported_kinds(),
                    palette: Palette::General,
                    max_var: 0,
                })
            },
            check_circuit,
        ),
        // larger registers: quizx switches code paths by tensor size
        Section::random_sharded(
            "circuit-wide",
            ctx.cases(120, 2400),
            8,
            move || {
                circ_spec(CircParams {
                    min_q: 6,
                    max_q: t.pick(7, 8),
                    max_gates: t.pick(8, 12),
                    kinds: tensor_supported_kinds(),
                    palette: Palette::ExactT,
                    max_var: 0,
                })
            },
            check_circuit,
        ),
        Section::random(
            "helpers",
            ctx.cases(20000, 400000),
            || {
                (
                    0usize..=3,
                    // sparse tensors: the first non-zero entry is often not entry 0
                    prop::collection::vec(prop_oneof![2 => Just([0i8; 4]), 3 => prop::array::uniform4(-2i8..=2)], 0..=8),
                    prop::collection::vec(-2i8..=2, 0..=8),
                    0u8..8,
                    prop::array::uniform4(-2i8..=2),
                    -2i8..=2,
                    any::<u16>(),
                    prop::array::uniform4(-1i8..=1),
                    prop::collection::vec(prop::array::uniform4(-2i8..=2), 0..=8),
                    0u8..9,
                )
                    .prop_map(
                        |(rank, entries, exps, relation, lambda, lambda_exp, pos, delta, other, layout)| {
                            HelperCase {
                                rank,
                                entries,
                                exps,
                                relation,
                                lambda,
                                lambda_exp,
                                pos,
                                delta,
                                other,
                                layout,
                            }
                        },
                    )
            },
            check_helper,
        ),
        Section::random(
            "compare",
            ctx.cases(3000, 60000),
            move || {
                (
                    diag_spec(DiagParams::general(6, 3, Palette::ExactT)),
                    0u8..4,
                    0u8..8,
                    -2i8..=2,
                    any::<u16>(),
                    diag_spec(DiagParams::general(6, 3, Palette::ExactT)),
                )
                    .prop_map(|(a, relation, k, p, pos, b)| CompareCase {
                        a,
                        relation,
                        k,
                        p,
                        pos,
                        b,
                    })
            },
            check_compare,
        ),
    ];
    PropertyDef {
        id: "C08",
        rule: "random well-formed diagrams (Z/X spiders, N/H edges, boundary-boundary wires, isolated spiders, closed, id holes; exact pi/4 and general phase palettes) built in both backends, and random circuits over the gates Circuit::to_tensor supports; every entry of to_tensor4 / to_tensorf compared with the harness evaluator / gate-matrix simulator. Non-trivial = diagram with an interior spider of degree >=3 and a Hadamard edge; circuit with >=3 gates incl. an entangling one; helper pair whose first non-zero entries agree although the tensors differ, or proportional-but-unequal; compare pair that is not equal. Distinct by hash of the generated case.",
        assumptions: vec![
            "harness evaluator (bucket elimination) and gate-matrix simulator are correct; cross-checked against a literal evaluator and each other in `qv selftest`",
            "exact entries are read through the verif raw-parts hook",
            "float comparisons use relative tolerance 1e-9 of the largest entry",
        ],
        sections,
    }
}
