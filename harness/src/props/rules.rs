//! Table of the primitive rewrite rules of `quizx::basic_rules` (check / unchecked / checked).

use quizx::basic_rules as br;
use quizx::graph::{GraphLike, V};
use serde::{Deserialize, Serialize};

#[derive(Clone, Copy, Debug, PartialEq, Eq, Hash, Serialize, Deserialize, PartialOrd, Ord)]
pub enum Rule {
    SpiderFusion,
    PiCopy,
    RemoveId,
    ColorChange,
    LocalComp,
    Pivot,
    GenPivot,
    GenPivotReduce,
    BoundaryPivot,
    HBoundaryPivot,
    BoundaryLocalComp,
    GadgetFusion,
    RemoveSingle,
    RemovePair,
    RemoveDuplicate,
}

pub const ALL_RULES: [Rule; 15] = [
    Rule::SpiderFusion,
    Rule::PiCopy,
    Rule::RemoveId,
    Rule::ColorChange,
    Rule::LocalComp,
    Rule::Pivot,
    Rule::GenPivot,
    Rule::GenPivotReduce,
    Rule::BoundaryPivot,
    Rule::HBoundaryPivot,
    Rule::BoundaryLocalComp,
    Rule::GadgetFusion,
    Rule::RemoveSingle,
    Rule::RemovePair,
    Rule::RemoveDuplicate,
];

impl Rule {
    pub fn name(self) -> &'static str {
        match self {
            Rule::SpiderFusion => "spider_fusion",
            Rule::PiCopy => "pi_copy",
            Rule::RemoveId => "remove_id",
            Rule::ColorChange => "color_change",
            Rule::LocalComp => "local_comp",
            Rule::Pivot => "pivot",
            Rule::GenPivot => "gen_pivot",
            Rule::GenPivotReduce => "gen_pivot_reduce",
            Rule::BoundaryPivot => "boundary_pivot",
            Rule::HBoundaryPivot => "h_boundary_pivot",
            Rule::BoundaryLocalComp => "boundary_local_comp",
            Rule::GadgetFusion => "gadget_fusion",
            Rule::RemoveSingle => "remove_single",
            Rule::RemovePair => "remove_pair",
            Rule::RemoveDuplicate => "remove_duplicate",
        }
    }

    pub fn accept_class(self) -> &'static str {
        match self {
            Rule::SpiderFusion => "accept:spider_fusion",
            Rule::PiCopy => "accept:pi_copy",
            Rule::RemoveId => "accept:remove_id",
            Rule::ColorChange => "accept:color_change",
            Rule::LocalComp => "accept:local_comp",
            Rule::Pivot => "accept:pivot",
            Rule::GenPivot => "accept:gen_pivot",
            Rule::GenPivotReduce => "accept:gen_pivot_reduce",
            Rule::BoundaryPivot => "accept:boundary_pivot",
            Rule::HBoundaryPivot => "accept:h_boundary_pivot",
            Rule::BoundaryLocalComp => "accept:boundary_local_comp",
            Rule::GadgetFusion => "accept:gadget_fusion",
            Rule::RemoveSingle => "accept:remove_single",
            Rule::RemovePair => "accept:remove_pair",
            Rule::RemoveDuplicate => "accept:remove_duplicate",
        }
    }

    pub fn arity(self) -> usize {
        match self {
            Rule::PiCopy
            | Rule::RemoveId
            | Rule::ColorChange
            | Rule::LocalComp
            | Rule::RemoveSingle => 1,
            _ => 2,
        }
    }

    pub fn check<G: GraphLike>(self, g: &G, v0: V, v1: V) -> bool {
        match self {
            Rule::SpiderFusion => br::check_spider_fusion(g, v0, v1),
            Rule::PiCopy => br::check_pi_copy(g, v0),
            Rule::RemoveId => br::check_remove_id(g, v0),
            Rule::ColorChange => br::check_color_change(g, v0),
            Rule::LocalComp => br::check_local_comp(g, v0),
            Rule::Pivot => br::check_pivot(g, v0, v1),
            Rule::GenPivot => br::check_gen_pivot(g, v0, v1),
            Rule::GenPivotReduce => br::check_gen_pivot_reduce(g, v0, v1),
            Rule::BoundaryPivot => br::check_boundary_pivot(g, v0, v1),
            Rule::HBoundaryPivot => br::check_h_boundary_pivot(g, v0, v1),
            Rule::BoundaryLocalComp => br::check_boundary_local_comp(g, v0, v1),
            Rule::GadgetFusion => br::check_gadget_fusion(g, v0, v1),
            Rule::RemoveSingle => br::check_remove_single(g, v0),
            Rule::RemovePair => br::check_remove_pair(g, v0, v1),
            Rule::RemoveDuplicate => br::check_remove_duplicate(g, v0, v1),
        }
    }

    pub fn unchecked<G: GraphLike>(self, g: &mut G, v0: V, v1: V) {
        match self {
            Rule::SpiderFusion => br::spider_fusion_unchecked(g, v0, v1),
            Rule::PiCopy => br::pi_copy_unchecked(g, v0),
            Rule::RemoveId => br::remove_id_unchecked(g, v0),
            Rule::ColorChange => br::color_change_unchecked(g, v0),
            Rule::LocalComp => br::local_comp_unchecked(g, v0),
            Rule::Pivot => br::pivot_unchecked(g, v0, v1),
            Rule::GenPivot
            | Rule::GenPivotReduce
            | Rule::BoundaryPivot
            | Rule::HBoundaryPivot => br::gen_pivot_unchecked(g, v0, v1),
            Rule::BoundaryLocalComp => br::boundary_local_comp_unchecked(g, v0, v1),
            Rule::GadgetFusion => br::gadget_fusion_unchecked(g, v0, v1),
            Rule::RemoveSingle => br::remove_single_unchecked(g, v0),
            Rule::RemovePair => br::remove_pair_unchecked(g, v0, v1),
            Rule::RemoveDuplicate => br::remove_duplicate_unchecked(g, v0, v1),
        }
    }

    /// The checked form; `None` if the library offers none for this matcher.
    pub fn checked<G: GraphLike>(self, g: &mut G, v0: V, v1: V) -> Option<bool> {
        Some(match self {
            Rule::SpiderFusion => br::spider_fusion(g, v0, v1),
            Rule::PiCopy => br::pi_copy(g, v0),
            Rule::RemoveId => br::remove_id(g, v0),
            Rule::ColorChange => br::color_change(g, v0),
            Rule::LocalComp => br::local_comp(g, v0),
            Rule::Pivot => br::pivot(g, v0, v1),
            Rule::GenPivot => br::gen_pivot(g, v0, v1),
            Rule::GenPivotReduce => return None,
            Rule::BoundaryPivot => br::boundary_pivot(g, v0, v1),
            Rule::HBoundaryPivot => br::h_boundary_pivot(g, v0, v1),
            Rule::BoundaryLocalComp => br::boundary_local_comp(g, v0, v1),
            Rule::GadgetFusion => br::gadget_fusion(g, v0, v1),
            Rule::RemoveSingle => br::remove_single(g, v0),
            Rule::RemovePair => br::remove_pair(g, v0, v1),
            Rule::RemoveDuplicate => br::remove_duplicate(g, v0, v1),
        })
    }
}
