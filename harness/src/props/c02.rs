//! C02 — circuit -> diagram translation denotes exactly the circuit's linear map.

use super::common::*;
use crate::engine::{Ctx, Obs, PropertyDef, Section};
use crate::gen::circ::{all_kinds, circ_spec, CircParams, CircSpec};
use crate::oracle::ring::Ring as _;
use crate::gen::diag::Palette;
use crate::oracle::csim::{self, Circ, GK};
use crate::oracle::ring::{Zw, C64};
use crate::oracle::zxeval::Tens;
use quizx::graph::GraphLike;
use serde::{Deserialize, Serialize};

#[derive(Clone, Debug, Serialize, Deserialize)]
pub struct Case {
    pub circ: CircSpec,
}

pub fn circ_truth(c: &Circ) -> Truth {
    if c.all_phases_quarter() {
        Truth::Exact(csim::simulate::<Zw>(c).expect("simulate"))
    } else {
        Truth::Float(csim::simulate::<C64>(c).expect("simulate"))
    }
}

/// The net permutation left by the SWAP gates: position i of the translated outputs carries the
/// wire that the circuit semantics puts at qubit `perm[i]`... computed by simulating the labels.
fn swap_permuted_truth(c: &Circ, truth: &Truth) -> Option<Truth> {
    // Only defined for circuits without post-selection (all n outputs live).
    if c.gates.iter().any(|g| matches!(g.k, GK::PostSel | GK::MeasureD)) {
        return None;
    }
    let n = c.n;
    // quizx model: qs[q] = index of the output list that qubit q currently drives
    let mut qs: Vec<usize> = (0..n).collect();
    for g in &c.gates {
        if g.k == GK::Swap {
            qs.swap(g.qs[0], g.qs[1]);
        }
    }
    if qs.iter().enumerate().all(|(i, &q)| i == q) {
        return None;
    }
    // expected (wrong) tensor: output position qs[q] carries logical qubit q
    let n_in = truth.n_in();
    let n_out = truth.n_out();
    assert_eq!(n_out, n);
    let permute = |idx: usize| -> usize {
        // idx bits: inputs then outputs (logical). new index has output bit at position qs[q] := bit q
        let in_part = idx >> n_out;
        let out = idx & ((1 << n_out) - 1);
        let mut nout = 0usize;
        for q in 0..n {
            let b = (out >> (n_out - 1 - q)) & 1;
            nout |= b << (n_out - 1 - qs[q]);
        }
        (in_part << n_out) | nout
    };
    Some(match truth {
        Truth::Exact(t) => {
            let mut data = vec![Zw::ZERO; t.data.len()];
            for i in 0..t.data.len() {
                data[permute(i)] = t.data[i];
            }
            Truth::Exact(Tens { n_in, n_out, data, scale: 1.0 })
        }
        Truth::Float(t) => {
            let mut data = t.data.clone();
            for i in 0..t.data.len() {
                data[permute(i)] = t.data[i];
            }
            Truth::Float(Tens { n_in, n_out, data, scale: 1.0 })
        }
    })
}

fn check_mode<G: GraphLike>(
    c: &Circ,
    truth: &Truth,
    simplify: bool,
    postselect: bool,
    name: &str,
    obs: &mut Obs,
) -> Result<(), String> {
    let qc = c.to_quizx();
    let g: G = guarded(&format!("{name}: to_graph_with_options({simplify},{postselect})"), || {
        qc.to_graph_with_options(simplify, postselect)
    })?;
    // translating the same circuit object again gives the same diagram (nothing is consumed)
    let again: G = guarded(&format!("{name}: to_graph_with_options, second call"), || qc.to_graph_with_options(simplify, postselect))?;
    if crate::oracle::diag::snapshot(&again).map(|s| s.diag) != crate::oracle::diag::snapshot(&g).map(|s| s.diag) {
        return Err(format!("{name}: to_graph_with_options({simplify},{postselect}) gives a different diagram when called a second time on the same circuit"));
    }
    let gt = match graph_truth(&g) {
        GraphTruth::Ok(t) => t,
        GraphTruth::TooBig => {
            obs.skip("oracle-too-big");
            return Ok(());
        }
        GraphTruth::Malformed(m) => {
            return Err(format!(
                "{name}: to_graph_with_options({simplify},{postselect}) produced a malformed diagram: {m}"
            ))
        }
    };
    if let Err(e) = same_truth(truth, &gt, REL_TOL) {
        if let Some(pt) = swap_permuted_truth(c, truth) {
            if same_truth(&pt, &gt, REL_TOL).is_ok() {
                return obs.known(
                    "to-graph-swap-outputs",
                    format!("{name}: outputs of to_graph are not permuted back after SWAP gates: {e}"),
                );
            }
        }
        return Err(format!(
            "{name}: to_graph_with_options({simplify},{postselect}) differs from the circuit's map: {e}"
        ));
    }
    Ok(())
}

pub fn classify(c: &Circ, obs: &mut Obs) {
    let mut seen_swap = false;
    let mut seen_post = false;
    for g in &c.gates {
        if g.k == GK::Swap {
            seen_swap = true;
        } else if seen_swap && g.k != GK::Swap {
            obs.class("gate-after-swap");
        }
        if g.k == GK::PostSel {
            seen_post = true;
        } else if seen_post {
            obs.class("gate-after-postsel");
        }
        match g.k {
            GK::Xcx => obs.class("xcx"),
            GK::Pp if g.qs.len() >= 2 => obs.class("pp>=2"),
            GK::Ccz | GK::Ccx => obs.class("ccz/ccx"),
            GK::InitAnc => obs.class("init_anc"),
            _ => {}
        }
    }
    obs.classes.sort();
    obs.classes.dedup();
}

fn check(case: &Case, obs: &mut Obs) -> Result<(), String> {
    let c = case.circ.to_circ();
    let truth = circ_truth(&c);
    classify(&c, obs);
    obs.class_if(truth.is_exact(), "exact");
    if c.gates.iter().any(|g| g.k.is_entangling()) {
        obs.nontrivial();
    }
    for (s, p) in [(false, false), (true, false), (false, true), (true, true)] {
        check_mode::<quizx::vec_graph::Graph>(&c, &truth, s, p, "vec", obs)?;
        check_mode::<quizx::hash_graph::Graph>(&c, &truth, s, p, "hash", obs)?;
    }
    Ok(())
}

// ------------------------------------------------------------------------------------------
// wide circuits: independent blocks of <= 3 qubits on interleaved qubit sets (16-90 qubits in
// all).  With computational-basis states plugged (in the harness model of the translated
// diagram) into every block but one, the remaining map is that block's unitary times the other
// blocks' amplitudes - all computable block by block.

#[derive(Clone, Debug, Serialize, Deserialize)]
pub struct WideCase {
    pub blocks: Vec<CircSpec>,
    pub shuffle: u64,
    pub open: u16,
}

fn check_wide_mode<G: GraphLike>(
    wide: &Circ,
    want: &Truth,
    plugs_in: &[(usize, bool)],
    plugs_out: &[(usize, bool)],
    simplify: bool,
    postselect: bool,
    name: &str,
    obs: &mut Obs,
) -> Result<(), String> {
    use crate::oracle::diag::{snapshot, VK};
    let qc = wide.to_quizx();
    let what = format!("{name}: to_graph_with_options({simplify},{postselect}) on {} qubits", wide.n);
    let g: G = guarded(&what, || qc.to_graph_with_options(simplify, postselect))?;
    let snap = snapshot(&g).map_err(|e| format!("{what}: malformed diagram: {e}"))?;
    let mut d = snap.diag;
    d.check_wellformed().map_err(|e| format!("{what}: malformed diagram: {e}"))?;
    if d.inputs.len() != wide.n || d.outputs.len() != wide.n {
        return Err(format!("{what}: {} inputs and {} outputs", d.inputs.len(), d.outputs.len()));
    }
    // an X spider with phase 0 / pi on a wire is sqrt2 |0> / sqrt2 |1>
    for &(pos, bit) in plugs_in {
        let v = d.inputs[pos];
        d.verts[v].kind = VK::X;
        d.verts[v].phase = (bit as i64, 1);
    }
    for &(pos, bit) in plugs_out {
        let v = d.outputs[pos];
        d.verts[v].kind = VK::X;
        d.verts[v].phase = (bit as i64, 1);
    }
    let keep_in: Vec<usize> = (0..wide.n).filter(|p| !plugs_in.iter().any(|(q, _)| q == p)).map(|p| d.inputs[p]).collect();
    let keep_out: Vec<usize> = (0..wide.n).filter(|p| !plugs_out.iter().any(|(q, _)| q == p)).map(|p| d.outputs[p]).collect();
    d.inputs = keep_in;
    d.outputs = keep_out;
    let got = match truth_of(&d) {
        Ok(t) => t,
        Err(crate::oracle::zxeval::EvalErr::TooBig) => {
            obs.skip("oracle-too-big");
            return Ok(());
        }
        Err(e) => return Err(format!("{what}: {e:?}")),
    };
    same_truth(want, &got, REL_TOL).map_err(|e| {
        format!("{what}: with basis states on all blocks but one, the remaining map differs from that block's map times the other blocks' amplitudes: {e}")
    })
}

fn check_wide(c: &WideCase, obs: &mut Obs) -> Result<(), String> {
    use crate::engine::mix;
    use crate::oracle::ring::Ring;
    let blocks: Vec<Circ> = c.blocks.iter().map(|b| b.to_circ()).collect();
    if blocks.is_empty() {
        return Ok(());
    }
    let n: usize = blocks.iter().map(|b| b.n).sum();
    // qubit sets: a shuffled assignment of positions to blocks; a block's j-th qubit is the j-th
    // smallest position it owns
    let mut owner: Vec<usize> = blocks.iter().enumerate().flat_map(|(b, blk)| std::iter::repeat(b).take(blk.n)).collect();
    let mut keys: Vec<(u64, usize)> = (0..n).map(|i| (mix(c.shuffle, i as u64), i)).collect();
    keys.sort();
    owner = keys.iter().map(|&(_, i)| owner[i]).collect();
    let mut qmap: Vec<Vec<usize>> = vec![vec![]; blocks.len()];
    for (pos, &b) in owner.iter().enumerate() {
        qmap[b].push(pos);
    }
    // gates: every block's gates in order, blocks interleaved by sorted keys
    let mut tagged: Vec<(u64, usize, usize)> = vec![];
    for (b, blk) in blocks.iter().enumerate() {
        let mut ks: Vec<u64> = (0..blk.gates.len()).map(|i| mix(c.shuffle ^ 0x9e37, (b * 1000 + i) as u64)).collect();
        ks.sort();
        for (i, k) in ks.into_iter().enumerate() {
            tagged.push((k, b, i));
        }
    }
    tagged.sort();
    let gates: Vec<csim::MGate> = tagged
        .iter()
        .map(|&(_, b, i)| {
            let mut g = blocks[b].gates[i].clone();
            g.qs = g.qs.iter().map(|&q| qmap[b][q]).collect();
            g
        })
        .collect();
    let wide = Circ { n, gates };
    let exact = wide.all_phases_quarter();
    obs.class_if(n >= 33, "qubits>=33");
    obs.class_if(n >= 65, "qubits>=65");
    obs.class_if(exact, "exact");
    if wide.gates.iter().any(|g| g.k.is_entangling()) {
        obs.nontrivial();
    }
    // per-block maps; basis inputs x_b and outputs y_b with non-zero amplitude for all but `open`
    let open = crate::gen::idx(c.open, blocks.len());
    let mut plugs_in = vec![];
    let mut plugs_out = vec![];
    let mut factor_z = Zw::ONE;
    let mut factor_c = C64(num::Complex::new(1.0, 0.0));
    let mut nplug = 0i32;
    let mut open_truth: Option<Truth> = None;
    for (b, blk) in blocks.iter().enumerate() {
        let t = if exact {
            Truth::Exact(csim::simulate::<Zw>(blk).map_err(|e| format!("{e:?}"))?)
        } else {
            Truth::Float(csim::simulate::<C64>(blk).map_err(|e| format!("{e:?}"))?)
        };
        if b == open {
            open_truth = Some(t);
            continue;
        }
        let s = blk.n;
        let x = (mix(c.shuffle ^ 0x1234, b as u64) as usize) & ((1 << s) - 1);
        let y0 = (mix(c.shuffle ^ 0x4321, b as u64) as usize) & ((1 << s) - 1);
        // first output string (cyclically from y0) with a non-zero amplitude
        let mut chosen = None;
        for dy in 0..(1usize << s) {
            let y = (y0 + dy) & ((1 << s) - 1);
            let idx = (x << s) | y;
            let nz = match &t {
                Truth::Exact(t) => !t.data[idx].is_zero(),
                Truth::Float(t) => t.data[idx].0.norm() > 1e-6,
            };
            if nz {
                chosen = Some(y);
                break;
            }
        }
        let y = chosen.ok_or("harness: a unitary block has a zero column")?;
        let idx = (x << s) | y;
        match &t {
            Truth::Exact(t) => factor_z = factor_z.mul(&t.data[idx]),
            Truth::Float(t) => factor_c = factor_c.mul(&t.data[idx]),
        }
        for j in 0..s {
            plugs_in.push((qmap[b][j], (x >> (s - 1 - j)) & 1 == 1));
            plugs_out.push((qmap[b][j], (y >> (s - 1 - j)) & 1 == 1));
            nplug += 2;
        }
    }
    let want = match open_truth.unwrap() {
        Truth::Exact(mut t) => {
            let f = factor_z.mul(&Zw::sqrt2_pow(nplug));
            for x in t.data.iter_mut() {
                *x = x.mul(&f);
            }
            Truth::Exact(t)
        }
        Truth::Float(mut t) => {
            let f = factor_c.mul(&C64::sqrt2_pow(nplug));
            for x in t.data.iter_mut() {
                *x = x.mul(&f);
            }
            t.scale = f.0.norm();
            Truth::Float(t)
        }
    };
    for (s, p) in [(false, false), (true, true)] {
        check_wide_mode::<quizx::vec_graph::Graph>(&wide, &want, &plugs_in, &plugs_out, s, p, "vec", obs)?;
        check_wide_mode::<quizx::hash_graph::Graph>(&wide, &want, &plugs_in, &plugs_out, s, p, "hash", obs)?;
    }
    Ok(())
}

pub fn def(ctx: &Ctx) -> PropertyDef {
    let t = ctx.tier;
    let mk = move |pal: Palette| {
        move || {
            use proptest::prelude::*;
            circ_spec(CircParams {
                min_q: 1,
                max_q: t.pick(4, 5),
                max_gates: t.pick(16, 25),
                kinds: all_kinds(),
                palette: pal,
                max_var: 0,
            })
            .prop_map(|circ| Case { circ })
        }
    };
    PropertyDef {
        id: "C02",
        rule: "random circuits over every supported gate kind (incl. swap, xcx, pp of arity 1-5, ccx/ccz, init_anc as first and post_sel as last operation on a qubit), translated with all four (simplify, postselect) option combinations into both backends; the translated diagram is evaluated by the harness evaluator and compared entry by entry with the harness gate-matrix simulator. Non-trivial = circuit with at least one entangling gate; distinct by hash of the generated circuit.",
        assumptions: vec![
            "harness evaluator and simulator (see selftest)",
            "ancilla initialisation only as the first, post-selection only as the last operation on a qubit (the documented domain)",
        ],
        sections: vec![
            Section::random("exact", ctx.cases(2500, 60000), mk(Palette::ExactT), check),
            Section::random("general", ctx.cases(1500, 40000), mk(Palette::General), check),
            Section::random(
                "wide-blocks",
                ctx.cases(40, 1000),
                move || {
                    use crate::gen::circ::unitary_kinds;
                    use proptest::prelude::*;
                    let block = |pal| {
                        circ_spec(CircParams {
                            min_q: 1,
                            max_q: 3,
                            max_gates: 6,
                            kinds: unitary_kinds(),
                            palette: pal,
                            max_var: 0,
                        })
                    };
                    (
                        prop_oneof![
                            4 => prop::collection::vec(block(Palette::ExactT), 4..=45),
                            1 => prop::collection::vec(block(Palette::General), 4..=20),
                        ],
                        any::<u64>(),
                        any::<u16>(),
                    )
                        .prop_map(|(blocks, shuffle, open)| WideCase { blocks, shuffle, open })
                },
                check_wide,
            ),
        ],
    }
}
