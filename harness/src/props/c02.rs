//! C02 — circuit -> diagram translation denotes exactly the circuit's linear map.

use super::common::*;
use crate::engine::{Ctx, Obs, PropertyDef, Section};
use crate::gen::circ::{all_kinds, circ_spec, CircParams, CircSpec};
use crate::gen::diag::Palette;
use crate::oracle::csim::{self, Circ, GK};
use crate::oracle::ring::{Zw, C64};
use crate::oracle::zxeval::Tens;
use quizx::graph::GraphLike;
use serde::{Deserialize, Serialize};

#[derive(Clone, Debug, Serialize, Deserialize)]
pub struct Case {
    pub circ: CircSpec,
}

pub fn circ_truth(c: &Circ) -> Truth {
    if c.all_phases_quarter() {
        Truth::Exact(csim::simulate::<Zw>(c).expect("simulate"))
    } else {
        Truth::Float(csim::simulate::<C64>(c).expect("simulate"))
    }
}

/// The net permutation left by the SWAP gates: position i of the translated outputs carries the
/// wire that the circuit semantics puts at qubit `perm[i]`... computed by simulating the labels.
fn swap_permuted_truth(c: &Circ, truth: &Truth) -> Option<Truth> {
    // Only defined for circuits without post-selection (all n outputs live).
    if c.gates.iter().any(|g| matches!(g.k, GK::PostSel | GK::MeasureD)) {
        return None;
    }
    let n = c.n;
    // quizx model: qs[q] = index of the output list that qubit q currently drives
    let mut qs: Vec<usize> = (0..n).collect();
    for g in &c.gates {
        if g.k == GK::Swap {
            qs.swap(g.qs[0], g.qs[1]);
        }
    }
    if qs.iter().enumerate().all(|(i, &q)| i == q) {
        return None;
    }
    // expected (wrong) tensor: output position qs[q] carries logical qubit q
    let n_in = truth.n_in();
    let n_out = truth.n_out();
    assert_eq!(n_out, n);
    let permute = |idx: usize| -> usize {
        // idx bits: inputs then outputs (logical). new index has output bit at position qs[q] := bit q
        let in_part = idx >> n_out;
        let out = idx & ((1 << n_out) - 1);
        let mut nout = 0usize;
        for q in 0..n {
            let b = (out >> (n_out - 1 - q)) & 1;
            nout |= b << (n_out - 1 - qs[q]);
        }
        (in_part << n_out) | nout
    };
    Some(match truth {
        Truth::Exact(t) => {
            let mut data = vec![Zw::ZERO; t.data.len()];
            for i in 0..t.data.len() {
                data[permute(i)] = t.data[i];
            }
            Truth::Exact(Tens { n_in, n_out, data, scale: 1.0 })
        }
        Truth::Float(t) => {
            let mut data = t.data.clone();
            for i in 0..t.data.len() {
                data[permute(i)] = t.data[i];
            }
            Truth::Float(Tens { n_in, n_out, data, scale: 1.0 })
        }
    })
}

fn check_mode<G: GraphLike>(
    c: &Circ,
    truth: &Truth,
    simplify: bool,
    postselect: bool,
    name: &str,
    obs: &mut Obs,
) -> Result<(), String> {
    let qc = c.to_quizx();
    let g: G = guarded(&format!("{name}: to_graph_with_options({simplify},{postselect})"), || {
        qc.to_graph_with_options(simplify, postselect)
    })?;
    let gt = match graph_truth(&g) {
        GraphTruth::Ok(t) => t,
        GraphTruth::TooBig => {
            obs.skip("oracle-too-big");
            return Ok(());
        }
        GraphTruth::Malformed(m) => {
            return Err(format!(
                "{name}: to_graph_with_options({simplify},{postselect}) produced a malformed diagram: {m}"
            ))
        }
    };
    if let Err(e) = same_truth(truth, &gt, REL_TOL) {
        if let Some(pt) = swap_permuted_truth(c, truth) {
            if same_truth(&pt, &gt, REL_TOL).is_ok() {
                return obs.known(
                    "to-graph-swap-outputs",
                    format!("{name}: outputs of to_graph are not permuted back after SWAP gates: {e}"),
                );
            }
        }
        return Err(format!(
            "{name}: to_graph_with_options({simplify},{postselect}) differs from the circuit's map: {e}"
        ));
    }
    Ok(())
}

pub fn classify(c: &Circ, obs: &mut Obs) {
    let mut seen_swap = false;
    let mut seen_post = false;
    for g in &c.gates {
        if g.k == GK::Swap {
            seen_swap = true;
        } else if seen_swap && g.k != GK::Swap {
            obs.class("gate-after-swap");
        }
        if g.k == GK::PostSel {
            seen_post = true;
        } else if seen_post {
            obs.class("gate-after-postsel");
        }
        match g.k {
            GK::Xcx => obs.class("xcx"),
            GK::Pp if g.qs.len() >= 2 => obs.class("pp>=2"),
            GK::Ccz | GK::Ccx => obs.class("ccz/ccx"),
            GK::InitAnc => obs.class("init_anc"),
            _ => {}
        }
    }
    obs.classes.sort();
    obs.classes.dedup();
}

fn check(case: &Case, obs: &mut Obs) -> Result<(), String> {
    let c = case.circ.to_circ();
    let truth = circ_truth(&c);
    classify(&c, obs);
    obs.class_if(truth.is_exact(), "exact");
    if c.gates.iter().any(|g| g.k.is_entangling()) {
        obs.nontrivial();
    }
    for (s, p) in [(false, false), (true, false), (false, true), (true, true)] {
        check_mode::<quizx::vec_graph::Graph>(&c, &truth, s, p, "vec", obs)?;
        check_mode::<quizx::hash_graph::Graph>(&c, &truth, s, p, "hash", obs)?;
    }
    Ok(())
}

pub fn def(ctx: &Ctx) -> PropertyDef {
    let t = ctx.tier;
    let mk = move |pal: Palette| {
        move || {
            use proptest::prelude::*;
            circ_spec(CircParams {
                min_q: 1,
                max_q: t.pick(4, 5),
                max_gates: t.pick(16, 25),
                kinds: all_kinds(),
                palette: pal,
                max_var: 0,
            })
            .prop_map(|circ| Case { circ })
        }
    };
    PropertyDef {
        id: "C02",
        rule: "random circuits over every supported gate kind (incl. swap, xcx, pp of arity 1-5, ccx/ccz, init_anc as first and post_sel as last operation on a qubit), translated with all four (simplify, postselect) option combinations into both backends; the translated diagram is evaluated by the harness evaluator and compared entry by entry with the harness gate-matrix simulator. Non-trivial = circuit with at least one entangling gate; distinct by hash of the generated circuit.",
        assumptions: vec![
            "harness evaluator and simulator (see selftest)",
            "ancilla initialisation only as the first, post-selection only as the last operation on a qubit (the documented domain)",
        ],
        sections: vec![
            Section::random("exact", ctx.cases(2500, 60000), mk(Palette::ExactT), check),
            Section::random("general", ctx.cases(1500, 40000), mk(Palette::General), check),
        ],
    }
}
