//! C01 — every simplification procedure preserves the diagram's linear map, scalar included.

use super::c02::circ_truth;
use super::common::*;
use crate::engine::{Ctx, Obs, PropertyDef, Section};
use crate::gen::circ::{all_kinds, circ_spec, CircParams, CircSpec};
use crate::gen::diag::{diag_spec, DiagParams, DiagSpec, Palette};
use crate::gen::plant::{
    cat_plant, duplicate_plant, gadgets_plant, local_comp_plant, pivot_plant, planted_spec,
    star_spec, PlantedSpec, StarSpec,
};
use crate::oracle::diag::{build, Diag, IdPlan};
use proptest::prelude::*;
use quizx::graph::{BasisElem, GraphLike, V};
use quizx::simplify as sp;
use serde::{Deserialize, Serialize};

#[derive(Clone, Copy, Debug, PartialEq, Eq, Hash)]
pub enum Proc {
    IdSimp,
    LocalCompSimp,
    SpiderSimp,
    PivotSimp,
    GenPivotSimp,
    ScalarSimp,
    FlowSimp,
    InteriorCliffordSimp,
    CliffordSimp,
    FuseGadgets,
    CliffordThenFuseGadgets,
    FullSimp,
    LocalGslc,
    LocalAp,
}

pub const ALL_PROCS: [Proc; 14] = [
    Proc::IdSimp,
    Proc::LocalCompSimp,
    Proc::SpiderSimp,
    Proc::PivotSimp,
    Proc::GenPivotSimp,
    Proc::ScalarSimp,
    Proc::FlowSimp,
    Proc::InteriorCliffordSimp,
    Proc::CliffordSimp,
    Proc::FuseGadgets,
    Proc::CliffordThenFuseGadgets,
    Proc::FullSimp,
    Proc::LocalGslc,
    Proc::LocalAp,
];

impl Proc {
    pub fn name(self) -> &'static str {
        match self {
            Proc::IdSimp => "id_simp",
            Proc::LocalCompSimp => "local_comp_simp",
            Proc::SpiderSimp => "spider_simp",
            Proc::PivotSimp => "pivot_simp",
            Proc::GenPivotSimp => "gen_pivot_simp",
            Proc::ScalarSimp => "scalar_simp",
            Proc::FlowSimp => "flow_simp",
            Proc::InteriorCliffordSimp => "interior_clifford_simp",
            Proc::CliffordSimp => "clifford_simp",
            Proc::FuseGadgets => "fuse_gadgets",
            Proc::CliffordThenFuseGadgets => "clifford_simp;fuse_gadgets",
            Proc::FullSimp => "full_simp",
            Proc::LocalGslc => "local_gslc_simp",
            Proc::LocalAp => "local_ap_simp",
        }
    }
    pub fn fired_class(self) -> &'static str {
        match self {
            Proc::IdSimp => "fired:id_simp",
            Proc::LocalCompSimp => "fired:local_comp_simp",
            Proc::SpiderSimp => "fired:spider_simp",
            Proc::PivotSimp => "fired:pivot_simp",
            Proc::GenPivotSimp => "fired:gen_pivot_simp",
            Proc::ScalarSimp => "fired:scalar_simp",
            Proc::FlowSimp => "fired:flow_simp",
            Proc::InteriorCliffordSimp => "fired:interior_clifford_simp",
            Proc::CliffordSimp => "fired:clifford_simp",
            Proc::FuseGadgets => "fired:fuse_gadgets(direct)",
            Proc::CliffordThenFuseGadgets => "fired:fuse_gadgets(after clifford_simp)",
            Proc::FullSimp => "fired:full_simp",
            Proc::LocalGslc => "fired:local_gslc_simp",
            Proc::LocalAp => "fired:local_ap_simp",
        }
    }
    /// returns whether the procedure reported / made a change
    pub fn run<G: GraphLike + PartialEq>(self, g: &mut G, vs: &[V]) -> bool {
        match self {
            Proc::IdSimp => sp::id_simp(g),
            Proc::LocalCompSimp => sp::local_comp_simp(g),
            Proc::SpiderSimp => sp::spider_simp(g),
            Proc::PivotSimp => sp::pivot_simp(g),
            Proc::GenPivotSimp => sp::gen_pivot_simp(g),
            Proc::ScalarSimp => sp::scalar_simp(g),
            Proc::FlowSimp => sp::flow_simp(g),
            Proc::InteriorCliffordSimp => sp::interior_clifford_simp(g),
            Proc::CliffordSimp => sp::clifford_simp(g),
            Proc::FuseGadgets => sp::fuse_gadgets(g),
            Proc::CliffordThenFuseGadgets => {
                sp::clifford_simp(g);
                sp::fuse_gadgets(g)
            }
            Proc::FullSimp => sp::full_simp(g),
            Proc::LocalGslc => {
                let before = g.clone();
                sp::local_gslc_simp(g, vs.iter().copied());
                *g != before
            }
            Proc::LocalAp => {
                let before = g.clone();
                sp::local_ap_simp(g, vs.iter().copied());
                *g != before
            }
        }
    }
}

pub fn check_procs_on<G: GraphLike + PartialEq>(
    g0: &G,
    before: &Truth,
    backend: &str,
    mask: u32,
    obs: &mut Obs,
) -> Result<(), String> {
    let mut all: Vec<V> = g0.vertices().collect();
    all.sort();
    let vs: Vec<V> = all
        .iter()
        .enumerate()
        .filter(|(i, _)| (mask >> (i % 32)) & 1 == 1)
        .map(|(_, &v)| v)
        .collect();
    for &p in &ALL_PROCS {
        let mut g = g0.clone();
        let what = format!("{backend}: {}", p.name());
        let fired = guarded(&what, || p.run(&mut g, &vs))?;
        if fired {
            obs.class(p.fired_class());
            obs.nontrivial_key(p as u64);
        }
        let after = match graph_truth(&g) {
            GraphTruth::Ok(t) => t,
            GraphTruth::TooBig => {
                obs.skip("oracle-too-big");
                continue;
            }
            GraphTruth::Malformed(m) => {
                return Err(format!("{what}: result is not a well-formed diagram: {m}"))
            }
        };
        same_truth(before, &after, REL_TOL)
            .map_err(|e| format!("{what}: linear map changed: {e}"))?;
    }
    // pipelines: 3-5 procedures (chosen by the mask, repetitions allowed) run one after the other
    // on the same object, the map compared after every stage - states that only arise after an
    // earlier procedure, and the second of two consecutive calls of the same one
    {
        let mut g = g0.clone();
        let len = 3 + (mask as usize >> 29) % 3;
        let mut names: Vec<&str> = vec![];
        for k in 0..len {
            let p = ALL_PROCS[((mask >> (4 * k)) as usize ^ (k * 5)) % ALL_PROCS.len()];
            let p = if k == 1 && mask & (1 << 28) != 0 { ALL_PROCS[(mask as usize) % ALL_PROCS.len()] } else { p };
            names.push(p.name());
            let what = format!("{backend}: pipeline {}", names.join(" ; "));
            let live: Vec<V> = vs.iter().copied().filter(|&v| g.contains_vertex(v)).collect();
            guarded(&what, || p.run(&mut g, &live))?;
            let after = match graph_truth(&g) {
                GraphTruth::Ok(t) => t,
                GraphTruth::TooBig => {
                    obs.skip("oracle-too-big");
                    break;
                }
                GraphTruth::Malformed(m) => return Err(format!("{what}: result is not a well-formed diagram: {m}")),
            };
            same_truth(before, &after, REL_TOL).map_err(|e| format!("{what}: linear map changed at the last stage: {e}"))?;
        }
        obs.class("pipeline");
    }
    Ok(())
}

fn check_model(d: &Diag, plan: &IdPlan, mask: u32, obs: &mut Obs) -> Result<(), String> {
    let before = match truth_of(d) {
        Ok(t) => t,
        Err(crate::oracle::zxeval::EvalErr::TooBig) => {
            obs.skip("oracle-too-big");
            return Ok(());
        }
        Err(e) => panic!("generator produced a diagram the oracle rejects: {e:?}"),
    };
    obs.class_if(before.is_exact(), "exact");
    obs.class_if(!before.is_exact(), "float");
    let (gv, _) = build::<quizx::vec_graph::Graph>(d, plan);
    check_procs_on(&gv, &before, "vec", mask, obs)?;
    let (gh, _) = build::<quizx::hash_graph::Graph>(d, plan);
    check_procs_on(&gh, &before, "hash", mask, obs)?;
    obs.classes.sort();
    obs.classes.dedup();
    Ok(())
}

#[derive(Clone, Debug, Serialize, Deserialize)]
pub struct DiagCase {
    pub spec: DiagSpec,
    pub mask: u32,
}

#[derive(Clone, Debug, Serialize, Deserialize)]
pub struct PlantedCase {
    pub spec: PlantedSpec,
    pub mask: u32,
}

#[derive(Clone, Debug, Serialize, Deserialize)]
pub struct CircCase {
    pub circ: CircSpec,
    /// per input / output: 0 skip, 1..4 = Z0 Z1 X0 X1
    pub plug_in: Vec<u8>,
    pub plug_out: Vec<u8>,
    pub simplify: bool,
    pub mask: u32,
}

fn basis(b: u8) -> BasisElem {
    match b % 5 {
        1 => BasisElem::Z0,
        2 => BasisElem::Z1,
        3 => BasisElem::X0,
        4 => BasisElem::X1,
        _ => BasisElem::SKIP,
    }
}

fn check_circ(case: &CircCase, obs: &mut Obs) -> Result<(), String> {
    let c = case.circ.to_circ();
    let qc = c.to_quizx();
    // the diagram under test is whatever the translation produced (C02 checks the translation);
    // its own evaluation is the reference
    fn go<G: GraphLike + PartialEq>(
        qc: &quizx::circuit::Circuit,
        case: &CircCase,
        backend: &str,
        obs: &mut Obs,
    ) -> Result<(), String> {
        let mut g: G = guarded("to_graph", || qc.to_graph_with_options(case.simplify, false))?;
        let ni = g.inputs().len();
        let no = g.outputs().len();
        let pi: Vec<BasisElem> = (0..ni)
            .map(|i| basis(case.plug_in.get(i).copied().unwrap_or(0)))
            .collect();
        let po: Vec<BasisElem> = (0..no)
            .map(|i| basis(case.plug_out.get(i).copied().unwrap_or(0)))
            .collect();
        if pi.iter().any(|b| *b != BasisElem::SKIP) {
            g.plug_inputs(&pi);
            obs.class("plugged");
        }
        if po.iter().any(|b| *b != BasisElem::SKIP) {
            g.plug_outputs(&po);
            obs.class("plugged");
        }
        let before = match graph_truth(&g) {
            GraphTruth::Ok(t) => t,
            GraphTruth::TooBig => {
                obs.skip("oracle-too-big");
                return Ok(());
            }
            GraphTruth::Malformed(m) => {
                return Err(format!("circuit diagram is malformed before simplification: {m}"))
            }
        };
        check_procs_on(&g, &before, backend, case.mask, obs)
    }
    let _ = circ_truth;
    go::<quizx::vec_graph::Graph>(&qc, case, "vec", obs)?;
    go::<quizx::hash_graph::Graph>(&qc, case, "hash", obs)?;
    obs.classes.sort();
    obs.classes.dedup();
    Ok(())
}

pub fn def(ctx: &Ctx) -> PropertyDef {
    let t = ctx.tier;
    let ms = t.pick(8, 11);
    let plant_mix = |pal: Palette| {
        prop_oneof![
            5 => gadgets_plant(pal, true),
            2 => pivot_plant(pal),
            1 => local_comp_plant(),
            1 => duplicate_plant(pal),
            1 => cat_plant(2),
        ]
        .boxed()
    };
    let sections = vec![
        Section::random(
            "diag-exact",
            ctx.cases(3000, 60000),
            move || {
                (diag_spec(DiagParams::general(ms, 4, Palette::Exact)), any::<u32>())
                    .prop_map(|(spec, mask)| DiagCase { spec, mask })
            },
            |c: &DiagCase, obs| check_model(&c.spec.to_diag(), &c.spec.plan, c.mask, obs),
        ),
        Section::random(
            "diag-general",
            ctx.cases(1500, 30000),
            move || {
                (diag_spec(DiagParams::general(ms, 4, Palette::General)), any::<u32>())
                    .prop_map(|(spec, mask)| DiagCase { spec, mask })
            },
            |c: &DiagCase, obs| check_model(&c.spec.to_diag(), &c.spec.plan, c.mask, obs),
        ),
        Section::random(
            "graphlike",
            ctx.cases(2000, 40000),
            move || {
                let mut p = DiagParams::graph_like(ms + 1, 4, Palette::ExactT);
                p.allow_bnd_h = true;
                p.dense = true;
                (diag_spec(p), any::<u32>()).prop_map(|(spec, mask)| DiagCase { spec, mask })
            },
            |c: &DiagCase, obs| check_model(&c.spec.to_diag(), &c.spec.plan, c.mask, obs),
        ),
        Section::random(
            "planted",
            ctx.cases(3000, 60000),
            move || {
                let mut p = DiagParams::graph_like(t.pick(5, 7), 3, Palette::ExactT);
                p.allow_bnd_h = true;
                (planted_spec(p, plant_mix(Palette::ExactT), 2), any::<u32>())
                    .prop_map(|(spec, mask)| PlantedCase { spec, mask })
            },
            |c: &PlantedCase, obs| check_model(&c.spec.to_diag(), &c.spec.host.plan, c.mask, obs),
        ),
        Section::random(
            "planted-general",
            ctx.cases(1000, 20000),
            move || {
                let mut p = DiagParams::graph_like(t.pick(5, 7), 3, Palette::General);
                p.allow_bnd_h = true;
                (planted_spec(p, plant_mix(Palette::General), 2), any::<u32>())
                    .prop_map(|(spec, mask)| PlantedCase { spec, mask })
            },
            |c: &PlantedCase, obs| check_model(&c.spec.to_diag(), &c.spec.host.plan, c.mask, obs),
        ),
        Section::random(
            "high-degree",
            ctx.cases(7, 240),
            move || (star_spec(t.pick(13, 16)), any::<u32>()),
            |c: &(StarSpec, u32), obs| {
                let d = c.0.to_diag();
                obs.class_if(
                    (d.degree(0) as i64 - 2) * (d.degree(1) as i64 - 2) >= 126,
                    "sqrt2-exponent>=126",
                );
                check_model(&d, &IdPlan::default(), c.1, obs)
            },
        ),
        Section::random(
            "circuit",
            ctx.cases(1500, 30000),
            move || {
                (
                    circ_spec(CircParams {
                        min_q: 1,
                        max_q: t.pick(4, 5),
                        max_gates: t.pick(24, 45),
                        kinds: all_kinds(),
                        palette: Palette::ExactT,
                        max_var: 0,
                    }),
                    prop::collection::vec(0u8..5, 0..=5),
                    prop::collection::vec(0u8..5, 0..=5),
                    any::<bool>(),
                    any::<u32>(),
                )
                    .prop_map(|(circ, plug_in, plug_out, simplify, mask)| CircCase {
                        circ,
                        plug_in,
                        plug_out,
                        simplify,
                        mask,
                    })
            },
            check_circ,
        ),
        Section::random(
            "circuit-general",
            ctx.cases(500, 10000),
            move || {
                (
                    circ_spec(CircParams {
                        min_q: 1,
                        max_q: t.pick(4, 5),
                        max_gates: t.pick(24, 45),
                        kinds: all_kinds(),
                        palette: Palette::General,
                        max_var: 0,
                    }),
                    prop::collection::vec(0u8..5, 0..=5),
                    prop::collection::vec(0u8..5, 0..=5),
                    any::<bool>(),
                    any::<u32>(),
                )
                    .prop_map(|(circ, plug_in, plug_out, simplify, mask)| CircCase {
                        circ,
                        plug_in,
                        plug_out,
                        simplify,
                        mask,
                    })
            },
            check_circ,
        ),
    ];
    PropertyDef {
        id: "C01",
        rule: "random well-formed diagrams (general Z/X with N/H edges; graph-like; hosts with planted gadget families / pivot pairs / proper-Clifford vertices / duplicates / cat stars, incl. 'spoiled' gadgets with a boundary, plain edge or X neighbour on a hub) and diagrams translated from random circuits (optionally with basis states plugged), in both backends with id holes; each of the 14 procedures (every pub fn of simplify.rs; fuse_gadgets both directly and after clifford_simp; local_gslc/local_ap with a generated vertex list) is run on a clone and the harness evaluator must give the same tensor before and after (exact for pi/4 phases, 1e-9 relative otherwise); no panic; result well-formed; in addition a pipeline of 3-5 procedures chosen by the generated mask (repetitions allowed) runs on one object with the tensor compared after every stage. Non-trivial = the procedure reported a change; distinct by (case, procedure).",
        assumptions: vec![
            "harness evaluator (see selftest)",
            "termination is only observed through a 120 s per-case watchdog (reported as inconclusive)",
        ],
        sections,
    }
}
