//! C18 — rank-decomposition trees stay valid with correct cached widths under all moves.

use super::common::*;
use crate::engine::{mix, Ctx, Obs, PropertyDef, Section};
use proptest::prelude::*;
use quizx::graph::{GraphLike, VType, V};
use quizx::rankwidth::annealer::RankwidthAnnealer;
use quizx::rankwidth::decomp_tree::{DecompNode, DecompTree};
use rand::RngCore;
use serde::{Deserialize, Serialize};
use std::collections::{BTreeMap, BTreeSet};

/// RNG driven by a generated word stream (so the choices shrink); falls back to a counter-based
/// mixer when the stream is exhausted.
pub struct ScriptRng {
    words: Vec<u64>,
    pos: usize,
    ctr: u64,
    /// words served before anything else (a finite run of repeated draws)
    front: std::collections::VecDeque<u64>,
    /// every `period` draws, stall on `pattern` for `reps` repetitions (0 = never)
    period: usize,
    pattern: Vec<u64>,
    reps: usize,
    draws: usize,
}

impl ScriptRng {
    pub fn new(words: Vec<u64>) -> ScriptRng {
        ScriptRng {
            words,
            pos: 0,
            ctr: 0,
            front: Default::default(),
            period: 0,
            pattern: vec![],
            reps: 0,
            draws: 0,
        }
    }
    pub fn with_periodic_stall(mut self, period: usize, pattern: Vec<u64>, reps: usize) -> ScriptRng {
        self.period = period;
        self.pattern = pattern;
        self.reps = reps;
        self
    }
    /// serve `pattern` `reps` times next: a stream on which a rejection loop keeps drawing the
    /// same candidates for a long but finite time
    pub fn stall(&mut self, pattern: &[u64], reps: usize) {
        for _ in 0..reps {
            self.front.extend(pattern.iter().copied());
        }
    }
}

impl RngCore for ScriptRng {
    fn next_u32(&mut self) -> u32 {
        (self.next_u64() >> 32) as u32
    }
    fn next_u64(&mut self) -> u64 {
        if let Some(w) = self.front.pop_front() {
            return mix(w, 0x51ed);
        }
        self.draws += 1;
        // at least 8 fresh draws between two stalls: a rejection loop must be able to get out
        if self.period > 0 && self.draws % self.period.max(8) == 0 && !self.pattern.is_empty() {
            let p = self.pattern.clone();
            self.stall(&p, self.reps);
        }
        if self.pos < self.words.len() {
            self.pos += 1;
            // spread small generated values over the whole range
            mix(self.words[self.pos - 1], 0x51ed)
        } else {
            self.ctr += 1;
            mix(self.ctr, 0xabcdef)
        }
    }
    fn fill_bytes(&mut self, dst: &mut [u8]) {
        for ch in dst.chunks_mut(8) {
            let b = self.next_u64().to_le_bytes();
            ch.copy_from_slice(&b[..ch.len()]);
        }
    }
}

#[derive(Clone, Debug, Serialize, Deserialize)]
pub struct GraphSpec {
    pub n: usize,
    /// 0 random edges, 1 edgeless, 2 complete
    pub kind: u8,
    pub edges: Vec<(u16, u16)>,
    /// names of the vertices (hash backend) are ids[i] apart
    pub stride: usize,
    pub hash: bool,
}

fn build_graph<G: GraphLike>(s: &GraphSpec) -> (G, Vec<V>) {
    let n = s.n.max(2);
    let mut g = G::new();
    let mut ids = vec![];
    for i in 0..n {
        if s.hash && s.stride > 1 {
            let name = i * s.stride + 1;
            g.add_named_vertex_with_data(
                name,
                quizx::graph::VData {
                    ty: VType::Z,
                    ..Default::default()
                },
            )
            .unwrap();
            ids.push(name);
        } else {
            ids.push(g.add_vertex(VType::Z));
        }
    }
    match s.kind % 3 {
        1 => {}
        2 => {
            for i in 0..n {
                for j in (i + 1)..n {
                    g.add_edge(ids[i], ids[j]);
                }
            }
        }
        _ => {
            for &(a, b) in &s.edges {
                let (x, y) = (crate::gen::idx(a, n), crate::gen::idx(b, n));
                if x != y && !g.connected(ids[x], ids[y]) {
                    g.add_edge(ids[x], ids[y]);
                }
            }
        }
    }
    (g, ids)
}

/// structural cubic-tree invariant
fn check_tree<G: GraphLike>(t: &DecompTree, g: &G) -> Result<(), String> {
    let n = t.nodes.len();
    let mut leaf_idx = vec![];
    let mut int_idx = vec![];
    let mut labels = vec![];
    for (i, node) in t.nodes.iter().enumerate() {
        match node {
            DecompNode::Leaf(_, v) => {
                leaf_idx.push(i);
                labels.push(*v);
            }
            DecompNode::Interior(_) => int_idx.push(i),
        }
        for &j in node.nhd() {
            if j >= n {
                return Err(format!("node {i} has the neighbour {j}, which is out of range"));
            }
            if j == i {
                return Err(format!("node {i} is its own neighbour"));
            }
        }
        let nb: BTreeSet<usize> = node.nhd().iter().copied().collect();
        if nb.len() != node.nhd().len() {
            return Err(format!("node {i} lists a neighbour twice: {:?}", node.nhd()));
        }
    }
    for (i, node) in t.nodes.iter().enumerate() {
        for &j in node.nhd() {
            if !t.nodes[j].nhd().contains(&i) {
                return Err(format!("adjacency not symmetric: {i} lists {j} but not vice versa"));
            }
        }
    }
    let mut l = t.leaves.clone();
    l.sort();
    let mut it = t.interior.clone();
    it.sort();
    if l != leaf_idx || it != int_idx {
        return Err("the leaves / interior index lists do not match the node array".into());
    }
    let mut vs: Vec<V> = g.vertices().collect();
    vs.sort();
    let mut lab = labels.clone();
    lab.sort();
    if lab != vs {
        return Err(format!("leaf labels {lab:?} are not exactly the graph's vertices {vs:?}"));
    }
    // connected and acyclic
    let nedges: usize = t.nodes.iter().map(|x| x.nhd().len()).sum::<usize>() / 2;
    if n > 0 && nedges != n - 1 {
        return Err(format!("{n} nodes but {nedges} edges: not a tree"));
    }
    if n > 0 {
        let mut seen = BTreeSet::new();
        let mut stack = vec![0usize];
        while let Some(x) = stack.pop() {
            if seen.insert(x) {
                for &j in t.nodes[x].nhd() {
                    stack.push(j);
                }
            }
        }
        if seen.len() != n {
            return Err("tree is not connected".into());
        }
    }
    if t.num_edges() != nedges {
        return Err(format!("num_edges() = {} but the tree has {nedges} edges", t.num_edges()));
    }
    Ok(())
}

fn f2_rank(mut rows: Vec<u64>) -> usize {
    let mut rank = 0;
    for c in 0..64 {
        if let Some(p) = (rank..rows.len()).find(|&i| (rows[i] >> c) & 1 == 1) {
            rows.swap(rank, p);
            let pr = rows[rank];
            for i in 0..rows.len() {
                if i != rank && (rows[i] >> c) & 1 == 1 {
                    rows[i] ^= pr;
                }
            }
            rank += 1;
        }
    }
    rank
}

/// brute-force cut ranks per tree edge from the harness's own partition
fn brute_ranks<G: GraphLike>(t: &DecompTree, g: &G) -> BTreeMap<(usize, usize), usize> {
    let mut out = BTreeMap::new();
    for (i, node) in t.nodes.iter().enumerate() {
        for &j in node.nhd() {
            if i < j {
                // leaves reachable from i without crossing (i,j)
                let mut side = vec![];
                let mut seen = BTreeSet::from([j]);
                let mut stack = vec![i];
                while let Some(x) = stack.pop() {
                    if seen.insert(x) {
                        if let DecompNode::Leaf(_, v) = t.nodes[x] {
                            side.push(v);
                        }
                        for &y in t.nodes[x].nhd() {
                            stack.push(y);
                        }
                    }
                }
                let other: Vec<V> = g.vertices().filter(|v| !side.contains(v)).collect();
                let rows: Vec<u64> = side
                    .iter()
                    .map(|&a| {
                        other
                            .iter()
                            .enumerate()
                            .fold(0u64, |acc, (k, &b)| acc | ((g.connected(a, b) as u64) << k))
                    })
                    .collect();
                out.insert((i, j), f2_rank(rows));
            }
        }
    }
    out
}

fn width_score(r: &BTreeMap<(usize, usize), usize>) -> (usize, usize) {
    (
        r.values().max().copied().unwrap_or(0),
        r.values().map(|x| x * x).sum(),
    )
}

#[derive(Clone, Debug, Serialize, Deserialize)]
pub struct HistCase {
    pub graph: GraphSpec,
    pub init_words: Vec<u64>,
    /// (move kind 0 leaf swap / 1 local swap / 2 subtree move, query widths afterwards?)
    pub moves: Vec<(u8, bool)>,
    pub words: Vec<u64>,
    /// (move index, pattern, repetitions): before that move the random stream repeats the
    /// pattern that many times
    #[serde(default)]
    pub stalls: Vec<(u8, Vec<u64>, u16)>,
}

fn check_hist_in<G: GraphLike>(c: &HistCase, obs: &mut Obs) -> Result<(), String> {
    let (g, _) = build_graph::<G>(&c.graph);
    let mut rng0 = ScriptRng::new(c.init_words.clone());
    let mut t = guarded("random_decomp", || DecompTree::random_decomp(&g, &mut rng0))?;
    check_tree(&t, &g).map_err(|e| format!("random_decomp: {e}"))?;
    if !t.is_valid_for_graph(&g) {
        return Err("random_decomp: is_valid_for_graph is false".into());
    }
    let mut rng = ScriptRng::new(c.words.clone());
    let two_leaf = t.nodes.len() == 2;
    obs.class_if(two_leaf, "two-leaf-tree");
    // warm the cache
    let (w0, s0) = width_score(&brute_ranks(&t, &g));
    let w = guarded("rankwidth", || t.rankwidth(&g))?;
    let s = guarded("rankwidth_score", || t.rankwidth_score(&g))?;
    if (w, s) != (w0, s0) {
        return Err(format!("fresh tree: rankwidth/score = ({w},{s}), brute force ({w0},{s0})"));
    }
    let mut kinds = BTreeSet::new();
    let mut touched: Vec<BTreeSet<(usize, usize)>> = vec![];
    for (i, &(kind, query)) in c.moves.iter().enumerate() {
        let name = match kind % 3 {
            0 => "swap_random_leaves",
            1 => "random_local_swap",
            _ => "move_random_subtree",
        };
        let before: BTreeSet<(usize, usize)> = t.edges().into_iter().collect();
        for (at, pattern, reps) in &c.stalls {
            if *at as usize == i && !pattern.is_empty() {
                rng.stall(pattern, *reps as usize);
                obs.class_if(*reps >= 50, "stalled-stream>=50");
            }
        }
        let r = guarded(&format!("move {i} {name}"), || match kind % 3 {
            0 => t.swap_random_leaves(&mut rng),
            1 => t.random_local_swap(&mut rng),
            _ => t.move_random_subtree(&mut rng),
        });
        if let Err(e) = r {
            if two_leaf && kind % 3 == 0 {
                return obs.known(
                    "leaf-swap-two-leaf-tree",
                    format!("swap_random_leaves on the two-leaf tree rewires a leaf to itself and panics: {e}"),
                );
            }
            return Err(e);
        }
        let after: BTreeSet<(usize, usize)> = t.edges().into_iter().collect();
        touched.push(before.symmetric_difference(&after).copied().collect());
        kinds.insert(kind % 3);
        check_tree(&t, &g).map_err(|e| format!("after move {i} ({name}): {e}"))?;
        if !t.is_valid_for_graph(&g) {
            return Err(format!("after move {i} ({name}): is_valid_for_graph is false"));
        }
        if query {
            let (bw, bs) = width_score(&brute_ranks(&t, &g));
            let mut fresh = t.clone();
            fresh.clear_ranks();
            let fw = fresh.rankwidth(&g);
            let fs = fresh.rankwidth_score(&g);
            let w = guarded("rankwidth", || t.rankwidth(&g))?;
            let s = guarded("rankwidth_score", || t.rankwidth_score(&g))?;
            if (fw, fs) != (bw, bs) {
                return Err(format!(
                    "after move {i} ({name}): recomputed-from-scratch rankwidth/score ({fw},{fs}) differ from brute force ({bw},{bs})"
                ));
            }
            if (w, s) != (bw, bs) {
                return Err(format!(
                    "after move {i} ({name}): cached rankwidth/score = ({w},{s}) but recomputing from scratch gives ({bw},{bs}) (stale cut rank)"
                ));
            }
        }
    }
    // non-trivial: >= 3 moves of >= 2 kinds on a tree with >= 6 nodes, two moves touching a common edge
    let common = touched.iter().enumerate().any(|(i, a)| {
        touched
            .iter()
            .skip(i + 1)
            .any(|b| a.intersection(b).next().is_some())
    });
    if c.moves.len() >= 3 && kinds.len() >= 2 && t.nodes.len() >= 6 && common {
        obs.nontrivial();
    }
    Ok(())
}

fn check_hist(c: &HistCase, obs: &mut Obs) -> Result<(), String> {
    if c.graph.hash {
        check_hist_in::<quizx::hash_graph::Graph>(c, obs)
    } else {
        check_hist_in::<quizx::vec_graph::Graph>(c, obs)
    }
}

#[derive(Clone, Debug, Serialize, Deserialize)]
pub struct AnnealCase {
    pub graph: GraphSpec,
    pub seed: u64,
    pub iterations: usize,
    pub init_temp: f64,
    pub min_temp: f64,
    pub cooling: f64,
    pub adaptive: bool,
    /// drive the annealer with the scripted RNG instead of SmallRng: (period, pattern, reps)
    #[serde(default)]
    pub script: Option<(u16, Vec<u64>, u16)>,
    /// 0 new(), 1 new_with_decomp(), 2 new() + set_init_decomp()
    #[serde(default)]
    pub entry: u8,
}

fn check_anneal(c: &AnnealCase, obs: &mut Obs) -> Result<(), String> {
    use rand::SeedableRng;
    match &c.script {
        None => check_anneal_with(c, rand::rngs::SmallRng::seed_from_u64(c.seed), obs),
        Some((period, pattern, reps)) => {
            obs.class("scripted-rng");
            let rng = ScriptRng::new(vec![c.seed]).with_periodic_stall(*period as usize, pattern.clone(), *reps as usize);
            check_anneal_with(c, rng, obs)
        }
    }
}

fn check_anneal_with<R: rand::Rng>(c: &AnnealCase, rng: R, obs: &mut Obs) -> Result<(), String> {
    let (g, _) = build_graph::<quizx::vec_graph::Graph>(&c.graph);
    // three public ways to fix the starting tree: drawn by new(), passed to new_with_decomp(),
    // or replaced afterwards by set_init_decomp(); the supplied tree may carry a warm rank cache
    let supplied = |warm: bool| -> Result<DecompTree, String> {
        let mut r0 = ScriptRng::new(vec![c.seed ^ 0x5151]);
        let mut t0 = guarded("random_decomp", || DecompTree::random_decomp(&g, &mut r0))?;
        if warm {
            let _ = t0.rankwidth(&g);
            t0.random_local_swap(&mut r0);
        }
        Ok(t0)
    };
    let mut a = match c.entry % 3 {
        1 => {
            obs.class("entry:new_with_decomp");
            let t0 = supplied(c.seed % 2 == 0)?;
            guarded("RankwidthAnnealer::new_with_decomp", || RankwidthAnnealer::new_with_decomp(g.clone(), t0, rng))?
        }
        2 => {
            obs.class("entry:set_init_decomp");
            let t0 = supplied(c.seed % 2 == 1)?;
            let mut a = guarded("RankwidthAnnealer::new", || RankwidthAnnealer::new(g.clone(), rng))?;
            a.set_init_decomp(t0.clone());
            if a.init_decomp().nodes != t0.nodes {
                return Err("set_init_decomp did not install the given tree".into());
            }
            a
        }
        _ => guarded("RankwidthAnnealer::new", || RankwidthAnnealer::new(g.clone(), rng))?,
    };
    a.set_iterations(c.iterations)
        .set_init_temp(c.init_temp)
        .set_min_temp(c.min_temp)
        .set_cooling_rate(c.cooling)
        .set_adaptive_cooling(c.adaptive);
    let init = a.init_decomp().clone();
    check_tree(&init, &g).map_err(|e| format!("initial decomposition: {e}"))?;
    let (w_init, _) = width_score(&brute_ranks(&init, &g));
    let edgeless = g.num_edges() == 0;
    obs.class_if(edgeless, "edgeless");
    obs.class_if(c.adaptive, "adaptive");
    let r = guarded("annealer run", || a.run());
    let res = match r {
        Ok(t) => t,
        Err(e) => {
            if c.adaptive && w_init == 0 {
                return obs.known(
                    "annealer-adaptive-zero-score",
                    format!("adaptive cooling divides by a zero best score (edgeless cuts) and feeds NaN to random_bool: {e}"),
                );
            }
            return Err(e);
        }
    };
    check_tree(&res, &g).map_err(|e| format!("annealer result: {e}"))?;
    if !res.is_valid_for_graph(&g) {
        return Err("annealer result: is_valid_for_graph is false".into());
    }
    let (w_res, _) = width_score(&brute_ranks(&res, &g));
    if w_res > w_init {
        return Err(format!(
            "annealer returned a decomposition of width {w_res}, wider than its starting tree ({w_init})"
        ));
    }
    let mut rc = res.clone();
    let claimed = rc.rankwidth(&g);
    if claimed != w_res {
        return Err(format!(
            "annealer result reports rankwidth {claimed} from its cache, brute force gives {w_res}"
        ));
    }
    if g.num_vertices() >= 5 && c.iterations >= 20 {
        obs.nontrivial();
    }
    obs.class_if(w_res < w_init, "improved");
    // the convenience entry point (thread RNG, default parameters) on small graphs
    if g.num_vertices() <= 7 && c.seed % 4 == 0 {
        let t = guarded("rank_decomp", || quizx::rankwidth::rank_decomp(&g))?;
        check_tree(&t, &g).map_err(|e| format!("rank_decomp result: {e}"))?;
        let (bw, _) = width_score(&brute_ranks(&t, &g));
        let mut tc = t.clone();
        if tc.rankwidth(&g) != bw {
            return Err("rank_decomp result reports a width that differs from brute force".into());
        }
        obs.class("rank_decomp");
    }
    Ok(())
}

fn graph_spec(max_n: usize) -> BoxedStrategy<GraphSpec> {
    (
        2usize..=max_n,
        prop_oneof![6 => Just(0u8), 1 => Just(1u8), 1 => Just(2u8)],
        prop::collection::vec((any::<u16>(), any::<u16>()), 0..=(max_n * 2)),
        1usize..=3,
        any::<bool>(),
    )
        .prop_map(|(n, kind, edges, stride, hash)| GraphSpec {
            n,
            kind,
            edges,
            stride,
            hash,
        })
        .boxed()
}

pub fn def(ctx: &Ctx) -> PropertyDef {
    let t = ctx.tier;
    let max_n = t.pick(14, 24);
    let max_moves = t.pick(30, 200);
    PropertyDef {
        id: "C18",
        rule: "graphs with 2..14 (24) vertices (random, edgeless, complete; vector and hash backend with gaps in the names); random_decomp and the three moves (leaf swap, local swap, subtree move) driven by a scripted RNG over a generated word stream, including streams that repeat a short pattern up to 400 times before a move (long finite runs of rejected draws); histories of <=30 (200) moves. After every move: structural cubic-tree invariant (leaves <-> vertices bijectively, symmetric adjacency, no self/multi adjacency, connected, acyclic, index lists consistent), is_valid_for_graph, no panic; rankwidth()/rankwidth_score() on the live tree == the same on a clone with the cache cleared == brute-force cut ranks from the harness's own partition and F2 rank. Annealer with generated parameters, a seeded SmallRng or the scripted RNG with periodic stalls, and its starting tree fixed through new(), new_with_decomp() or set_init_decomp() (supplied trees with a cold or warm rank cache): result valid, brute-force width <= that of the initial tree and equal to the width it reports. Non-trivial = >=3 moves of >=2 kinds on a tree with >=6 nodes with two moves touching a common tree edge; annealer on >=5 vertices with >=20 iterations.",
        assumptions: vec!["harness partition / F2 rank; scripted RNG implements rand::RngCore"],
        sections: vec![
            Section::random(
                "move-histories",
                ctx.cases(6000, 40000),
                move || {
                    (
                        graph_spec(max_n),
                        prop::collection::vec(any::<u64>(), 0..=40),
                        prop::collection::vec((0u8..3, prop_oneof![3 => Just(true), 1 => Just(false)]), 0..=max_moves),
                        prop::collection::vec(any::<u64>(), 0..=(max_moves * 3)),
                        prop::collection::vec(
                            (0u8..12, prop::collection::vec(any::<u64>(), 1..=4), prop_oneof![1 => 1u16..20, 2 => 45u16..80, 1 => 100u16..400]),
                            0..=2,
                        ),
                    )
                        .prop_map(|(graph, init_words, moves, words, stalls)| HistCase {
                            graph,
                            init_words,
                            moves,
                            words,
                            stalls,
                        })
                },
                check_hist,
            ),
            Section::random(
                "annealer",
                ctx.cases(2000, 12000),
                move || {
                    (
                        // mostly small graphs: an accepted move there often changes the width
                        prop_oneof![3 => graph_spec(9), 1 => graph_spec(max_n.min(16))],
                        any::<u64>(),
                        0usize..=300,
                        prop_oneof![Just(5.0f64), 0.01f64..20.0],
                        prop_oneof![Just(0.01f64), 0.0001f64..1.0],
                        prop_oneof![Just(0.95f64), 0.05f64..0.999],
                        any::<bool>(),
                        prop_oneof![
                            2 => Just(None),
                            1 => (8u16..200, prop::collection::vec(any::<u64>(), 1..=4), prop_oneof![1u16..20, 45u16..120]).prop_map(Some),
                        ],
                        0u8..3,
                    )
                        .prop_map(
                            |(graph, seed, iterations, init_temp, min_temp, cooling, adaptive, script, entry)| AnnealCase {
                                graph,
                                seed,
                                iterations,
                                init_temp,
                                min_temp,
                                cooling,
                                adaptive,
                                script,
                                entry,
                            },
                        )
                },
                check_anneal,
            ),
        ],
    }
}
