//! C09 — both graph backends behave identically and stay internally consistent (stateful).

use super::common::*;
use crate::engine::{Ctx, Obs, PropertyDef, Section};
use crate::gen::idx;
use crate::oracle::diag::{read_scalar, to_qphase, MScalar};
use crate::oracle::ring::{Ring, Zw};
use proptest::prelude::*;
use quizx::graph::{Coord, EType, GraphLike, VData, VType, V};
use quizx::params::{Expr, Parity};
use quizx::scalar::Scalar4;
use serde::{Deserialize, Serialize};
use std::collections::{BTreeMap, BTreeSet};

type Mid = usize;

#[derive(Clone, Debug, PartialEq, Serialize, Deserialize)]
pub struct DataSpec {
    pub ty: u8, // 0 B 1 Z 2 X 3 H
    pub phase: (i64, i64),
    pub vars: Vec<u32>,
    pub qubit: i16,
    pub row: i16,
}

#[derive(Clone, Debug, PartialEq, Serialize, Deserialize)]
pub enum Op {
    AddVertex(u8),
    AddVertexWithData(DataSpec),
    /// named insertion: 0 = name of a live vertex (must fail), 1 = a free name inside the index
    /// range (if any), 2.. = beyond the range by (k-2)
    AddNamed(u8, u16, DataSpec),
    RemoveVertex(u16),
    AddEdge(u16, u16, bool),
    /// turn a live vertex into a hub: k fresh leaves plus an edge to every live vertex it is not
    /// yet adjacent to (long neighbour lists, dense rows)
    Hub(u16, u8, bool),
    RemoveEdge(u16),
    SetEdgeType(u16, bool),
    ToggleEdgeType(u16),
    /// add_vertex_with_phase (the shorthand for add_vertex + set_phase)
    AddVertexWithPhase(u8, (i64, i64)),
    /// overwrite a vertex's whole data record through vertex_data_mut
    OverwriteData(u16, DataSpec),
    AddEdgeSmart(u16, u16, bool),
    /// add_edge_smart aimed at an existing edge (parallel-edge cases)
    SmartOnEdge(u16, bool),
    SetType(u16, u8),
    SetPhase(u16, (i64, i64)),
    AddToPhase(u16, (i64, i64)),
    SetCoord(u16, i16, i16),
    SetQubit(u16, i16),
    SetRow(u16, i16),
    SetVars(u16, Vec<u32>),
    AddToVars(u16, Vec<u32>),
    SetInputs(Vec<u16>),
    SetOutputs(Vec<u16>),
    PushInput(u16),
    PushOutput(u16),
    PopInput,
    MulSqrt2(i8),
    MulPhase(i8),
    SetScalar([i8; 4], i8),
    MulFactor(Vec<u32>, bool, [i8; 4]),
    Pack(bool),
    CloneAndContinue,
    Subgraph(u32),
    AppendSelf,
    XToZ,
    Adjoint,
}

#[derive(Clone, Debug, PartialEq)]
struct MV {
    ty: VType,
    phase: (i64, i64),
    vars: Vec<u32>,
    qubit: f64,
    row: f64,
}

#[derive(Clone, Debug)]
struct Model {
    verts: BTreeMap<Mid, MV>,
    edges: BTreeMap<(Mid, Mid), EType>,
    inputs: Vec<Mid>,
    outputs: Vec<Mid>,
    scalar: Zw,
    factors: BTreeMap<String, Zw>,
    next: Mid,
}

fn vt(t: u8) -> VType {
    match t % 4 {
        0 => VType::B,
        1 => VType::Z,
        2 => VType::X,
        _ => VType::H,
    }
}

fn norm_vars(v: &[u32]) -> Vec<u32> {
    let mut s = v.to_vec();
    s.sort();
    let mut out: Vec<u32> = vec![];
    for x in s {
        if out.last() == Some(&x) {
            out.pop();
        } else {
            out.push(x);
        }
    }
    out
}

fn xor_vars(a: &[u32], b: &[u32]) -> Vec<u32> {
    let mut v = a.to_vec();
    v.extend_from_slice(b);
    norm_vars(&v)
}

fn mk_data(d: &DataSpec) -> (MV, VData) {
    let phase = crate::oracle::diag::norm_phase((d.phase.0, d.phase.1.max(1)));
    let vars = norm_vars(&d.vars);
    let mv = MV {
        ty: vt(d.ty),
        phase,
        vars: vars.clone(),
        qubit: d.qubit as f64 / 2.0,
        row: d.row as f64 / 2.0,
    };
    let vd = VData {
        ty: mv.ty,
        phase: to_qphase(phase),
        vars: Parity::new(vars, false),
        qubit: mv.qubit,
        row: mv.row,
    };
    (mv, vd)
}

impl Model {
    fn new() -> Model {
        Model {
            verts: BTreeMap::new(),
            edges: BTreeMap::new(),
            inputs: vec![],
            outputs: vec![],
            scalar: Zw::ONE,
            factors: BTreeMap::new(),
            next: 0,
        }
    }
    fn mids(&self) -> Vec<Mid> {
        self.verts.keys().copied().collect()
    }
    fn pick(&self, raw: u16) -> Option<Mid> {
        let m = self.mids();
        if m.is_empty() {
            None
        } else {
            Some(m[idx(raw, m.len())])
        }
    }
    fn ekey(a: Mid, b: Mid) -> (Mid, Mid) {
        (a.min(b), a.max(b))
    }
    fn neighbors(&self, v: Mid) -> Vec<(Mid, EType)> {
        self.edges
            .iter()
            .filter_map(|(&(a, b), &t)| {
                if a == v {
                    Some((b, t))
                } else if b == v {
                    Some((a, t))
                } else {
                    None
                }
            })
            .collect()
    }
    fn add_phase(&mut self, v: Mid, p: (i64, i64)) {
        let q = self.verts[&v].phase;
        let n = crate::oracle::diag::norm_phase((q.0 * p.1 + p.0 * q.1, q.1 * p.1));
        self.verts.get_mut(&v).unwrap().phase = n;
    }
    fn remove_vertex(&mut self, v: Mid) {
        self.verts.remove(&v);
        self.edges.retain(|&(a, b), _| a != v && b != v);
    }
    fn components(&self) -> BTreeSet<BTreeSet<Mid>> {
        let mut seen: BTreeSet<Mid> = BTreeSet::new();
        let mut out = BTreeSet::new();
        for &v in self.verts.keys() {
            if seen.contains(&v) {
                continue;
            }
            let mut comp = BTreeSet::new();
            let mut stack = vec![v];
            while let Some(x) = stack.pop() {
                if comp.insert(x) {
                    for (n, _) in self.neighbors(x) {
                        stack.push(n);
                    }
                }
            }
            seen.extend(comp.iter().copied());
            out.insert(comp);
        }
        out
    }
}

struct Impl<G: GraphLike> {
    g: G,
    name: BTreeMap<Mid, V>,
    label: &'static str,
}

impl<G: GraphLike + PartialEq> Impl<G> {
    fn n(&self, m: Mid) -> V {
        self.name[&m]
    }
    fn live(&self) -> BTreeSet<V> {
        self.name.values().copied().collect()
    }
}

fn fbits(x: f64) -> u64 {
    x.to_bits()
}

fn zw_of_scalar(s: &Scalar4) -> Result<Zw, String> {
    match read_scalar(s) {
        MScalar::Exact(z) => Ok(z),
        MScalar::Float(..) => Err("scalar unexpectedly approximate".into()),
    }
}

fn compare<G: GraphLike + PartialEq>(m: &Model, im: &Impl<G>, step: &str) -> Result<(), String> {
    let g = &im.g;
    let l = im.label;
    let err = |msg: String| Err(format!("{l} after {step}: {msg}"));
    // counts and enumerations
    let vs: Vec<V> = g.vertices().collect();
    let vset: BTreeSet<V> = vs.iter().copied().collect();
    if vset.len() != vs.len() {
        return err("vertices() yields a vertex twice".into());
    }
    if g.num_vertices() != vs.len() {
        return err(format!("num_vertices() = {} but vertices() yields {}", g.num_vertices(), vs.len()));
    }
    if vset != im.live() {
        return err(format!("vertices() = {vset:?}, expected {:?}", im.live()));
    }
    if g.vertex_vec() != vs {
        // order of two successive enumerations of an unchanged graph
        let a: BTreeSet<V> = g.vertex_vec().into_iter().collect();
        if a != vset {
            return err("vertex_vec() differs from vertices()".into());
        }
    }
    let es: Vec<(V, V, EType)> = g.edges().collect();
    if g.num_edges() != es.len() {
        return err(format!("num_edges() = {} but edges() yields {}", g.num_edges(), es.len()));
    }
    let mut eset: BTreeMap<(V, V), EType> = BTreeMap::new();
    for &(s, t, et) in &es {
        if s > t {
            return err(format!("edges() yields ({s},{t}) with s > t"));
        }
        if eset.insert((s, t), et).is_some() {
            return err(format!("edges() yields ({s},{t}) twice"));
        }
    }
    let want_edges: BTreeMap<(V, V), EType> = m
        .edges
        .iter()
        .map(|(&(a, b), &t)| {
            let (x, y) = (im.n(a), im.n(b));
            ((x.min(y), x.max(y)), t)
        })
        .collect();
    if eset != want_edges {
        return err(format!("edges() = {eset:?}, expected {want_edges:?}"));
    }
    let ev: BTreeSet<(V, V)> = g.edge_vec().into_iter().map(|(a, b, _)| (a, b)).collect();
    if ev != eset.keys().copied().collect() {
        return err("edge_vec() differs from edges()".into());
    }
    // vertex data, adjacency
    let vmax = vset.iter().max().copied();
    if let Some(mx) = vmax {
        if g.vindex() <= mx {
            return err(format!("vindex() = {} is not above the live name {mx}", g.vindex()));
        }
    }
    for (&mid, mv) in &m.verts {
        let v = im.n(mid);
        let d = g.vertex_data(v);
        let dvars: Vec<u32> = d.vars.iter().collect();
        let (pn, pd) = {
            let r = d.phase.to_rational();
            (*r.numer(), *r.denom())
        };
        if d.ty != mv.ty
            || (pn, pd) != mv.phase
            || dvars != mv.vars
            || fbits(d.qubit) != fbits(mv.qubit)
            || fbits(d.row) != fbits(mv.row)
        {
            return err(format!("vertex_data({v}) = {d:?}, expected {mv:?}"));
        }
        if g.vertex_type(v) != mv.ty
            || g.vertex_type_opt(v) != Some(mv.ty)
            || g.vertex_data_opt(v).is_none()
            || fbits(g.qubit(v)) != fbits(mv.qubit)
            || fbits(g.row(v)) != fbits(mv.row)
            || g.coord(v) != Coord::new(mv.row, mv.qubit)
            || g.vars(v) != Parity::new(mv.vars.clone(), false)
            || g.phase(v) != to_qphase(mv.phase)
        {
            return err(format!("an accessor of vertex {v} disagrees with vertex_data"));
        }
        let want: BTreeMap<V, EType> = m
            .neighbors(mid)
            .into_iter()
            .map(|(n, t)| (im.n(n), t))
            .collect();
        let nb: Vec<V> = g.neighbors(v).collect();
        let nbs: BTreeSet<V> = nb.iter().copied().collect();
        if nbs.len() != nb.len() {
            return err(format!("neighbors({v}) yields a vertex twice: {nb:?}"));
        }
        if nbs != want.keys().copied().collect() {
            return err(format!("neighbors({v}) = {nbs:?}, expected {:?}", want.keys()));
        }
        let inc: BTreeMap<V, EType> = g.incident_edges(v).collect();
        if inc != want {
            return err(format!("incident_edges({v}) = {inc:?}, expected {want:?}"));
        }
        if g.degree(v) != want.len() {
            return err(format!("degree({v}) = {}, expected {}", g.degree(v), want.len()));
        }
        if g.neighbor_vec(v).len() != want.len() || g.incident_edge_vec(v).len() != want.len() {
            return err("neighbor_vec / incident_edge_vec length".into());
        }
    }
    // queries over all names incl. dead ones
    let top = g.vindex().max(vmax.map(|x| x + 1).unwrap_or(0)) + 2;
    // all rows for small name ranges; otherwise the rows of a few vertices (extreme degrees,
    // first and last name, two dead names) against every name
    let rows: Vec<V> = if top <= 40 {
        (0..top).collect()
    } else {
        let mut r: Vec<V> = vec![];
        let live: Vec<V> = vset.iter().copied().collect();
        if let Some(&v) = live.iter().max_by_key(|&&v| g.degree(v)) {
            r.push(v);
        }
        if let Some(&v) = live.iter().min_by_key(|&&v| g.degree(v)) {
            r.push(v);
        }
        r.extend(live.first().copied());
        r.extend(live.last().copied());
        r.extend(live.get(live.len() / 2).copied());
        r.extend((0..top).filter(|a| !vset.contains(a)).take(2));
        r.push(top - 1);
        r.sort();
        r.dedup();
        r
    };
    {
        for a in rows {
            if g.contains_vertex(a) != vset.contains(&a) {
                return err(format!("contains_vertex({a}) = {}", g.contains_vertex(a)));
            }
            if g.vertex_type_opt(a).is_some() != vset.contains(&a) {
                return err(format!("vertex_type_opt({a}) presence"));
            }
            for b in 0..top {
                let want = want_edges.get(&(a.min(b), a.max(b))).copied();
                let want = if a == b { None } else { want };
                let got = g.edge_type_opt(a, b);
                if got != want {
                    return err(format!("edge_type_opt({a},{b}) = {got:?}, expected {want:?}"));
                }
                if g.connected(a, b) != want.is_some() {
                    return err(format!("connected({a},{b})"));
                }
                if g.connected(b, a) != want.is_some() {
                    return err(format!("connected({b},{a})"));
                }
                if let Some(et) = want {
                    // the panicking accessor on an existing edge, both orientations
                    if g.edge_type(a, b) != et || g.edge_type(b, a) != et {
                        return err(format!("edge_type({a},{b})"));
                    }
                }
            }
        }
    }
    // inputs / outputs
    let wi: Vec<V> = m.inputs.iter().map(|&x| im.n(x)).collect();
    let wo: Vec<V> = m.outputs.iter().map(|&x| im.n(x)).collect();
    if *g.inputs() != wi {
        return err(format!("inputs() = {:?}, expected {wi:?}", g.inputs()));
    }
    if *g.outputs() != wo {
        return err(format!("outputs() = {:?}, expected {wo:?}", g.outputs()));
    }
    // scalar and factors
    let s = zw_of_scalar(g.scalar()).map_err(|e| format!("{l} after {step}: {e}"))?;
    if s != m.scalar {
        return err(format!("scalar() = {s:?}, expected {:?}", m.scalar));
    }
    let mut fs: BTreeMap<String, Zw> = BTreeMap::new();
    for (e, f) in g.scalar_factors() {
        let z = zw_of_scalar(f).map_err(|x| format!("{l} after {step}: {x}"))?;
        if fs.insert(format!("{e:?}"), z).is_some() {
            return err("scalar_factors() yields a key twice".into());
        }
        if g.get_scalar_factor(e) != Some(*f) {
            return err("get_scalar_factor disagrees with scalar_factors".into());
        }
    }
    if fs != m.factors {
        return err(format!("scalar_factors() = {fs:?}, expected {:?}", m.factors));
    }
    // find_vertex / find_edge: a witness iff one exists
    for ty in [VType::B, VType::Z, VType::X, VType::H] {
        let exists = m.verts.values().any(|v| v.ty == ty);
        match g.find_vertex(|v| g.vertex_type(v) == ty) {
            Some(w) => {
                if !vset.contains(&w) || g.vertex_type(w) != ty {
                    return err(format!("find_vertex returned {w}, which does not satisfy the predicate"));
                }
            }
            None => {
                if exists {
                    return err(format!("find_vertex found no {ty:?} vertex although one exists"));
                }
            }
        }
    }
    for et in [EType::N, EType::H] {
        let exists = m.edges.values().any(|&t| t == et);
        match g.find_edge(|_, _, t| t == et) {
            Some((a, b, t)) => {
                if t != et || want_edges.get(&(a.min(b), a.max(b))) != Some(&et) {
                    return err(format!("find_edge returned ({a},{b},{t:?}), not an edge of that type"));
                }
            }
            None => {
                if exists {
                    return err(format!("find_edge found no {et:?} edge although one exists"));
                }
            }
        }
    }
    // components
    let comps: BTreeSet<BTreeSet<V>> = g
        .component_vertices()
        .into_iter()
        .map(|c| c.into_iter().collect())
        .collect();
    let want: BTreeSet<BTreeSet<V>> = m
        .components()
        .into_iter()
        .map(|c| c.into_iter().map(|x| im.n(x)).collect())
        .collect();
    if comps != want {
        return err(format!("component_vertices() = {comps:?}, expected {want:?}"));
    }
    // derived observers
    let want_t = m
        .verts
        .values()
        .filter(|v| (v.ty == VType::Z || v.ty == VType::X) && v.phase.1 > 2)
        .count();
    if g.tcount() != want_t {
        return err(format!("tcount() = {}, expected {want_t}", g.tcount()));
    }
    if m.verts.is_empty() {
        if g.depth() != -1.0 {
            return err(format!("depth() of the empty graph = {}", g.depth()));
        }
    } else {
        let wd = m.verts.values().map(|v| v.row).fold(f64::NEG_INFINITY, f64::max);
        if g.depth() != wd {
            return err(format!("depth() = {}, expected {wd}", g.depth()));
        }
    }
    if vs.len() <= 12 {
        let mut order = vs.clone();
        order.sort();
        let am = g.adjacency_matrix(Some(&order));
        for (i, &a) in order.iter().enumerate() {
            for (j, &b) in order.iter().enumerate() {
                let want = a != b && want_edges.contains_key(&(a.min(b), a.max(b)));
                if am[(i, j)] != want {
                    return err(format!("adjacency_matrix entry ({a},{b}) = {}, expected {want}", am[(i, j)]));
                }
            }
        }
    }
    // clone equal
    let c = g.clone();
    if c != *g {
        return err("clone() != original".into());
    }
    Ok(())
}

fn smart_defined(m: &Model, a: Mid, b: Mid) -> bool {
    let ta = m.verts[&a].ty;
    let tb = m.verts[&b].ty;
    let zx = |t: VType| t == VType::Z || t == VType::X;
    if a == b {
        return zx(ta);
    }
    if m.edges.contains_key(&Model::ekey(a, b)) {
        zx(ta) && zx(tb) && m.edges[&Model::ekey(a, b)] != EType::Wio
    } else {
        true
    }
}

fn model_smart(m: &mut Model, s: Mid, t: Mid, ety: EType) {
    use EType::*;
    let isq = Zw::sqrt2_pow(-1);
    if s == t {
        if ety == H {
            m.add_phase(s, (1, 1));
            m.scalar = m.scalar.mul(&isq);
        }
        return;
    }
    let key = Model::ekey(s, t);
    match m.edges.get(&key).copied() {
        None => {
            m.edges.insert(key, ety);
        }
        Some(e0) => {
            let same = m.verts[&s].ty == m.verts[&t].ty;
            // normalise to the same-colour table by toggling for different colours
            let (e0n, en) = if same {
                (e0, ety)
            } else {
                (e0.opposite(), ety.opposite())
            };
            match (e0n, en) {
                (N, N) => {}
                (H, H) => {
                    m.edges.remove(&key);
                    m.scalar = m.scalar.mul(&isq).mul(&isq);
                }
                (H, N) => {
                    m.edges.insert(key, if same { N } else { H });
                    m.add_phase(s, (1, 1));
                    m.scalar = m.scalar.mul(&isq);
                }
                (N, H) => {
                    m.add_phase(s, (1, 1));
                    m.scalar = m.scalar.mul(&isq);
                }
                _ => unreachable!(),
            }
        }
    }
}

struct World {
    m: Model,
    v: Impl<quizx::vec_graph::Graph>,
    h: Impl<quizx::hash_graph::Graph>,
}

macro_rules! both {
    ($w:expr, $what:expr, |$im:ident| $body:expr) => {{
        {
            let $im = &mut $w.v;
            guarded(&format!("vec: {}", $what), || $body)?;
        }
        {
            let $im = &mut $w.h;
            guarded(&format!("hash: {}", $what), || $body)?;
        }
    }};
}

fn add_fresh<G: GraphLike + PartialEq>(
    im: &mut Impl<G>,
    mid: Mid,
    f: impl FnOnce(&mut G) -> V,
    what: &str,
) -> Result<(), String> {
    let before = im.live();
    let label = im.label;
    let g = &mut im.g;
    let v = guarded(&format!("{label}: {what}"), || f(g))?;
    if before.contains(&v) {
        return Err(format!("{label}: {what} returned the name {v} of a live vertex"));
    }
    im.name.insert(mid, v);
    Ok(())
}

fn apply(w: &mut World, op: &Op, obs: &mut Obs) -> Result<Option<String>, String> {
    let what = format!("{op:?}");
    match op {
        Op::AddVertex(t) => {
            let ty = vt(*t);
            let mid = w.m.next;
            w.m.next += 1;
            w.m.verts.insert(
                mid,
                MV {
                    ty,
                    phase: (0, 1),
                    vars: vec![],
                    qubit: 0.0,
                    row: 0.0,
                },
            );
            let removed_before = w.v.g.vindex() > w.v.g.num_vertices();
            add_fresh(&mut w.v, mid, |g| g.add_vertex(ty), &what)?;
            add_fresh(&mut w.h, mid, |g| g.add_vertex(ty), &what)?;
            if removed_before {
                obs.class("hole-reuse");
            }
        }
        Op::AddVertexWithData(d) => {
            let (mv, vd) = mk_data(d);
            let mid = w.m.next;
            w.m.next += 1;
            w.m.verts.insert(mid, mv);
            if w.v.g.vindex() > w.v.g.num_vertices() {
                obs.class("hole-reuse");
            }
            let vd2 = vd.clone();
            add_fresh(&mut w.v, mid, |g| g.add_vertex_with_data(vd), &what)?;
            add_fresh(&mut w.h, mid, |g| g.add_vertex_with_data(vd2), &what)?;
        }
        Op::AddNamed(kind, raw, d) => {
            let (mv, vd) = mk_data(d);
            match *kind {
                0 => {
                    // the name of a live vertex: must fail in both, graph unchanged
                    let Some(mid) = w.m.pick(*raw) else { return Ok(None) };
                    let (nv, nh) = (w.v.n(mid), w.h.n(mid));
                    let vd2 = vd.clone();
                    let rv = guarded("vec: add_named(existing)", || {
                        w.v.g.add_named_vertex_with_data(nv, vd).is_ok()
                    })?;
                    let rh = guarded("hash: add_named(existing)", || {
                        w.h.g.add_named_vertex_with_data(nh, vd2).is_ok()
                    })?;
                    if rv || rh {
                        return Err(format!(
                            "add_named_vertex_with_data with the name of a live vertex succeeded (vec {rv}, hash {rh})"
                        ));
                    }
                    obs.class("named:existing");
                }
                k => {
                    let live_v = w.v.live();
                    let live_h = w.h.live();
                    let name = if k == 1 {
                        // a name inside both index ranges that is free in both
                        let top = w.v.g.vindex().min(w.h.g.vindex());
                        let free: Vec<V> = (0..top)
                            .filter(|x| !live_v.contains(x) && !live_h.contains(x))
                            .collect();
                        if free.is_empty() {
                            return Ok(None);
                        }
                        obs.class("named:free-inside-range");
                        free[idx(*raw, free.len())]
                    } else {
                        obs.class("named:beyond-range");
                        w.v.g.vindex().max(w.h.g.vindex()) + (k as usize - 2)
                    };
                    let mid = w.m.next;
                    w.m.next += 1;
                    w.m.verts.insert(mid, mv);
                    let vd2 = vd.clone();
                    let beyond_vec = name >= w.v.g.vindex();
                    let rv = guarded(&format!("vec: add_named_vertex_with_data({name})"), || {
                        w.v.g.add_named_vertex_with_data(name, vd).map_err(|e| e.to_string())
                    });
                    let rv = match rv {
                        Ok(r) => r,
                        Err(p) => {
                            if beyond_vec {
                                obs.known(
                                    "vec-named-insertion-beyond-range",
                                    format!("vector backend: named insertion at or beyond the current length panics: {p}"),
                                )?;
                                return Ok(Some("abort".into()));
                            }
                            return Err(p);
                        }
                    };
                    let rh = guarded(&format!("hash: add_named_vertex_with_data({name})"), || {
                        w.h.g.add_named_vertex_with_data(name, vd2).map_err(|e| e.to_string())
                    })?;
                    if let Err(e) = rv {
                        return Err(format!("vec: named insertion with the free name {name} failed: {e}"));
                    }
                    if let Err(e) = rh {
                        return Err(format!("hash: named insertion with the free name {name} failed: {e}"));
                    }
                    w.v.name.insert(mid, name);
                    w.h.name.insert(mid, name);
                }
            }
        }
        Op::RemoveVertex(raw) => {
            let Some(mid) = w.m.pick(*raw) else { return Ok(None) };
            // keep the boundary lists valid
            if w.m.inputs.contains(&mid) || w.m.outputs.contains(&mid) {
                w.m.inputs.retain(|&x| x != mid);
                w.m.outputs.retain(|&x| x != mid);
                let m = &w.m;
                both!(w, "set_inputs/outputs", |im| {
                    let i = m.inputs.iter().map(|&x| im.n(x)).collect();
                    let o = m.outputs.iter().map(|&x| im.n(x)).collect();
                    im.g.set_inputs(i);
                    im.g.set_outputs(o);
                });
            }
            w.m.remove_vertex(mid);
            both!(w, &what, |im| {
                let n = im.n(mid);
                im.g.remove_vertex(n);
                im.name.remove(&mid);
            });
            obs.class("remove-vertex");
        }
        Op::AddEdge(a, b, h) => {
            let (Some(x), Some(y)) = (w.m.pick(*a), w.m.pick(*b)) else { return Ok(None) };
            if x == y || w.m.edges.contains_key(&Model::ekey(x, y)) {
                return Ok(None);
            }
            let et = if *h { EType::H } else { EType::N };
            w.m.edges.insert(Model::ekey(x, y), et);
            both!(w, &what, |im| {
                let (p, q) = (im.n(x), im.n(y));
                if *h {
                    im.g.add_edge_with_type(p, q, et)
                } else {
                    im.g.add_edge(p, q)
                }
            });
        }
        Op::Hub(a, k, h) => {
            let Some(x) = w.m.pick(*a) else { return Ok(None) };
            let others: Vec<Mid> = w.m.mids().into_iter().filter(|&y| y != x && !w.m.edges.contains_key(&Model::ekey(x, y))).collect();
            for j in 0..*k as usize {
                let mid = w.m.next;
                w.m.next += 1;
                w.m.verts.insert(
                    mid,
                    MV {
                        ty: VType::Z,
                        phase: (0, 1),
                        vars: vec![],
                        qubit: 0.0,
                        row: 0.0,
                    },
                );
                add_fresh(&mut w.v, mid, |g| g.add_vertex(VType::Z), &what)?;
                add_fresh(&mut w.h, mid, |g| g.add_vertex(VType::Z), &what)?;
                let et = if *h ^ (j % 3 == 2) { EType::H } else { EType::N };
                w.m.edges.insert(Model::ekey(x, mid), et);
                both!(w, &what, |im| {
                    let (p, q) = (im.n(x), im.n(mid));
                    if j % 2 == 0 {
                        im.g.add_edge_with_type(p, q, et)
                    } else {
                        im.g.add_edge_with_type(q, p, et)
                    }
                });
            }
            for y in others {
                let et = if *h { EType::N } else { EType::H };
                w.m.edges.insert(Model::ekey(x, y), et);
                both!(w, &what, |im| {
                    let (p, q) = (im.n(x), im.n(y));
                    im.g.add_edge_with_type(p, q, et)
                });
            }
            if w.m.neighbors(x).len() > 16 {
                obs.class("hub-degree>16");
            }
            if w.m.neighbors(x).len() > 32 {
                obs.class("hub-degree>32");
            }
        }
        Op::RemoveEdge(raw) => {
            let keys: Vec<(Mid, Mid)> = w.m.edges.keys().copied().collect();
            if keys.is_empty() {
                return Ok(None);
            }
            let (x, y) = keys[idx(*raw, keys.len())];
            w.m.edges.remove(&(x, y));
            let flip = raw % 2 == 1;
            both!(w, &what, |im| {
                let (p, q) = (im.n(x), im.n(y));
                if flip {
                    im.g.remove_edge(q, p)
                } else {
                    im.g.remove_edge(p, q)
                }
            });
        }
        Op::SetEdgeType(raw, h) => {
            let keys: Vec<(Mid, Mid)> = w.m.edges.keys().copied().collect();
            if keys.is_empty() {
                return Ok(None);
            }
            let (x, y) = keys[idx(*raw, keys.len())];
            let et = if *h { EType::H } else { EType::N };
            w.m.edges.insert((x, y), et);
            let flip = raw % 2 == 1;
            both!(w, &what, |im| {
                let (p, q) = (im.n(x), im.n(y));
                if flip {
                    im.g.set_edge_type(q, p, et)
                } else {
                    im.g.set_edge_type(p, q, et)
                }
            });
        }
        Op::ToggleEdgeType(raw) => {
            let keys: Vec<(Mid, Mid)> = w.m.edges.keys().copied().collect();
            if keys.is_empty() {
                return Ok(None);
            }
            let (x, y) = keys[idx(*raw, keys.len())];
            let et = w.m.edges[&(x, y)];
            w.m.edges.insert((x, y), if et == EType::N { EType::H } else { EType::N });
            let flip = raw % 2 == 1;
            both!(w, &what, |im| {
                let (p, q) = (im.n(x), im.n(y));
                if flip {
                    im.g.toggle_edge_type(q, p)
                } else {
                    im.g.toggle_edge_type(p, q)
                }
            });
        }
        Op::AddVertexWithPhase(t, p) => {
            let ty = vt(*t);
            let ph = crate::oracle::diag::norm_phase((p.0, p.1.max(1)));
            let mid = w.m.next;
            w.m.next += 1;
            w.m.verts.insert(
                mid,
                MV {
                    ty,
                    phase: ph,
                    vars: vec![],
                    qubit: 0.0,
                    row: 0.0,
                },
            );
            add_fresh(&mut w.v, mid, |g| g.add_vertex_with_phase(ty, to_qphase(ph)), &what)?;
            add_fresh(&mut w.h, mid, |g| g.add_vertex_with_phase(ty, to_qphase(ph)), &what)?;
        }
        Op::OverwriteData(raw, d) => {
            let Some(x) = w.m.pick(*raw) else { return Ok(None) };
            let (mv, vd) = mk_data(d);
            *w.m.verts.get_mut(&x).unwrap() = mv;
            both!(w, &what, |im| {
                let n = im.n(x);
                *im.g.vertex_data_mut(n) = vd.clone();
            });
        }
        Op::AddEdgeSmart(a, b, h) => {
            let (Some(x), Some(y)) = (w.m.pick(*a), w.m.pick(*b)) else { return Ok(None) };
            if !smart_defined(&w.m, x, y) {
                return Ok(None);
            }
            let et = if *h { EType::H } else { EType::N };
            if x == y {
                obs.class("smart:self-loop");
            } else if w.m.edges.contains_key(&Model::ekey(x, y)) {
                obs.class("smart:parallel");
            }
            model_smart(&mut w.m, x, y, et);
            both!(w, &what, |im| {
                let (p, q) = (im.n(x), im.n(y));
                im.g.add_edge_smart(p, q, et)
            });
        }
        Op::SmartOnEdge(raw, h) => {
            let keys: Vec<(Mid, Mid)> = w.m.edges.keys().copied().collect();
            if keys.is_empty() {
                return Ok(None);
            }
            let (mut x, mut y) = keys[idx(*raw, keys.len())];
            if raw % 2 == 1 {
                std::mem::swap(&mut x, &mut y);
            }
            if !smart_defined(&w.m, x, y) {
                return Ok(None);
            }
            let et = if *h { EType::H } else { EType::N };
            obs.class("smart:parallel");
            model_smart(&mut w.m, x, y, et);
            both!(w, &what, |im| {
                let (p, q) = (im.n(x), im.n(y));
                im.g.add_edge_smart(p, q, et)
            });
        }
        Op::SetType(raw, t) => {
            let Some(x) = w.m.pick(*raw) else { return Ok(None) };
            w.m.verts.get_mut(&x).unwrap().ty = vt(*t);
            both!(w, &what, |im| {
                let p = im.n(x);
                im.g.set_vertex_type(p, vt(*t))
            });
        }
        Op::SetPhase(raw, p) => {
            let Some(x) = w.m.pick(*raw) else { return Ok(None) };
            let ph = crate::oracle::diag::norm_phase((p.0, p.1.max(1)));
            w.m.verts.get_mut(&x).unwrap().phase = ph;
            both!(w, &what, |im| {
                let n = im.n(x);
                im.g.set_phase(n, to_qphase(ph))
            });
        }
        Op::AddToPhase(raw, p) => {
            let Some(x) = w.m.pick(*raw) else { return Ok(None) };
            let ph = (p.0, p.1.max(1));
            w.m.add_phase(x, ph);
            both!(w, &what, |im| {
                let n = im.n(x);
                im.g.add_to_phase(n, to_qphase(ph))
            });
        }
        Op::SetCoord(raw, r, q) => {
            let Some(x) = w.m.pick(*raw) else { return Ok(None) };
            let (rf, qf) = (*r as f64 / 2.0, *q as f64 / 2.0);
            {
                let v = w.m.verts.get_mut(&x).unwrap();
                v.row = rf;
                v.qubit = qf;
            }
            both!(w, &what, |im| {
                let n = im.n(x);
                im.g.set_coord(n, Coord::new(rf, qf))
            });
        }
        Op::SetQubit(raw, q) => {
            let Some(x) = w.m.pick(*raw) else { return Ok(None) };
            let qf = *q as f64 / 2.0;
            w.m.verts.get_mut(&x).unwrap().qubit = qf;
            both!(w, &what, |im| {
                let n = im.n(x);
                im.g.set_qubit(n, qf)
            });
        }
        Op::SetRow(raw, r) => {
            let Some(x) = w.m.pick(*raw) else { return Ok(None) };
            let rf = *r as f64 / 2.0;
            w.m.verts.get_mut(&x).unwrap().row = rf;
            both!(w, &what, |im| {
                let n = im.n(x);
                im.g.set_row(n, rf)
            });
        }
        Op::SetVars(raw, vars) => {
            let Some(x) = w.m.pick(*raw) else { return Ok(None) };
            let vs = norm_vars(vars);
            w.m.verts.get_mut(&x).unwrap().vars = vs.clone();
            both!(w, &what, |im| {
                let n = im.n(x);
                im.g.set_vars(n, Parity::new(vs.clone(), false))
            });
        }
        Op::AddToVars(raw, vars) => {
            let Some(x) = w.m.pick(*raw) else { return Ok(None) };
            let vs = norm_vars(vars);
            let nv = xor_vars(&w.m.verts[&x].vars, &vs);
            w.m.verts.get_mut(&x).unwrap().vars = nv;
            both!(w, &what, |im| {
                let n = im.n(x);
                im.g.add_to_vars(n, &Parity::new(vs.clone(), false))
            });
        }
        Op::SetInputs(raws) | Op::SetOutputs(raws) => {
            let mut list: Vec<Mid> = vec![];
            for r in raws {
                if let Some(x) = w.m.pick(*r) {
                    if !list.contains(&x) {
                        list.push(x);
                    }
                }
            }
            let is_in = matches!(op, Op::SetInputs(_));
            if is_in {
                w.m.inputs = list.clone();
            } else {
                w.m.outputs = list.clone();
            }
            both!(w, &what, |im| {
                let l: Vec<V> = list.iter().map(|&x| im.n(x)).collect();
                if is_in {
                    im.g.set_inputs(l)
                } else {
                    im.g.set_outputs(l)
                }
            });
        }
        Op::PushInput(raw) | Op::PushOutput(raw) => {
            let Some(x) = w.m.pick(*raw) else { return Ok(None) };
            let is_in = matches!(op, Op::PushInput(_));
            if is_in {
                w.m.inputs.push(x);
            } else {
                w.m.outputs.push(x);
            }
            both!(w, &what, |im| {
                let n = im.n(x);
                if is_in {
                    im.g.inputs_mut().push(n)
                } else {
                    im.g.outputs_mut().push(n)
                }
            });
        }
        Op::PopInput => {
            if w.m.inputs.pop().is_none() {
                return Ok(None);
            }
            both!(w, &what, |im| {
                im.g.inputs_mut().pop();
            });
        }
        Op::MulSqrt2(p) => {
            w.m.scalar = w.m.scalar.mul(&Zw::sqrt2_pow(*p as i32));
            both!(w, &what, |im| im.g.scalar_mut().mul_sqrt2_pow(*p as i32));
        }
        Op::MulPhase(k) => {
            w.m.scalar = w.m.scalar.mul(&Zw::omega_pow(*k as i64));
            both!(w, &what, |im| im
                .g
                .scalar_mut()
                .mul_phase(to_qphase((*k as i64, 4))));
        }
        Op::SetScalar(c, e) => {
            let z = Zw::new(
                [c[0] as i128, c[1] as i128, c[2] as i128, c[3] as i128],
                *e as i32,
            );
            w.m.scalar = z;
            let s = Scalar4::new([c[0] as i64, c[1] as i64, c[2] as i64, c[3] as i64], *e as i32);
            both!(w, &what, |im| *im.g.scalar_mut() = s);
        }
        Op::MulFactor(vars, neg, c) => {
            let vs = norm_vars(vars);
            let z = Zw::new([c[0] as i128, c[1] as i128, c[2] as i128, c[3] as i128], 0);
            let e = Expr::linear(Parity::new(vs, *neg));
            let key = format!("{e:?}");
            let cur = w.m.factors.get(&key).copied();
            w.m.factors.insert(
                key,
                match cur {
                    Some(x) => x.mul(&z),
                    None => z,
                },
            );
            let s = Scalar4::new([c[0] as i64, c[1] as i64, c[2] as i64, c[3] as i64], 0);
            both!(w, &what, |im| im.g.mul_scalar_factor(e.clone(), s));
        }
        Op::Pack(force) => {
            let holes = w.v.g.vindex() > w.v.g.num_vertices();
            both!(w, &what, |im| im.g.pack(*force));
            // the vector backend may rename: the renaming must be the order-preserving one
            let live: BTreeSet<V> = w.v.g.vertices().collect();
            if live != w.v.live() {
                let mut old: Vec<(V, Mid)> = w.v.name.iter().map(|(&m, &v)| (v, m)).collect();
                old.sort();
                for (newname, (_, mid)) in old.into_iter().enumerate() {
                    w.v.name.insert(mid, newname);
                }
                if holes {
                    obs.class("pack-after-deletions");
                }
            } else if *force && holes && w.v.g.vindex() != w.v.g.num_vertices() {
                return Err("vec: pack(true) left holes".into());
            }
        }
        Op::CloneAndContinue => {
            // continue on clones; the originals must stay untouched by later edits to the clones
            let ov = w.v.g.clone();
            let oh = w.h.g.clone();
            let mut cv = ov.clone();
            let mut ch = oh.clone();
            // mutate the clones and check the originals did not change
            let snap_v = format!("{:?}", ov);
            let snap_h = format!("{:?}", oh);
            let a = cv.add_vertex(VType::Z);
            cv.scalar_mut().mul_sqrt2_pow(1);
            let fu = cv.vertices().find(|&u| u != a);
            if let Some(u) = fu {
                cv.add_edge(a, u);
                cv.remove_vertex(u);
            }
            let b = ch.add_vertex(VType::Z);
            ch.scalar_mut().mul_sqrt2_pow(1);
            let fu = ch.vertices().find(|&u| u != b);
            if let Some(u) = fu {
                ch.add_edge(b, u);
                ch.remove_vertex(u);
            }
            if format!("{:?}", ov) != snap_v || ov != w.v.g {
                return Err("vec: editing a clone changed the original".into());
            }
            if format!("{:?}", oh) != snap_h || oh != w.h.g {
                return Err("hash: editing a clone changed the original".into());
            }
            w.v.g = ov.clone();
            w.h.g = oh.clone();
            obs.class("clone");
        }
        Op::Subgraph(mask) => {
            let mids = w.m.mids();
            let sel: Vec<Mid> = mids
                .iter()
                .enumerate()
                .filter(|(i, _)| (mask >> (i % 32)) & 1 == 1)
                .map(|(_, &m)| m)
                .collect();
            fn sub<G: GraphLike + PartialEq>(im: &Impl<G>, m: &Model, sel: &[Mid]) -> Result<(), String> {
                let names: Vec<V> = sel.iter().map(|&x| im.n(x)).collect();
                let s = guarded(&format!("{}: subgraph_from_vertices", im.label), || {
                    im.g.subgraph_from_vertices(names.clone())
                })?;
                if s.num_vertices() != sel.len() {
                    return Err(format!("{}: subgraph has {} vertices, expected {}", im.label, s.num_vertices(), sel.len()));
                }
                let want_e = m
                    .edges
                    .keys()
                    .filter(|(a, b)| sel.contains(a) && sel.contains(b))
                    .count();
                if s.num_edges() != want_e || s.edges().count() != want_e {
                    return Err(format!("{}: subgraph has {} edges, expected {want_e}", im.label, s.num_edges()));
                }
                // multiset of vertex data must match
                let mut got: Vec<String> = s.vertices().map(|v| format!("{:?}", s.vertex_data(v))).collect();
                let mut want: Vec<String> = names.iter().map(|&v| format!("{:?}", im.g.vertex_data(v))).collect();
                got.sort();
                want.sort();
                if got != want {
                    return Err(format!("{}: subgraph vertex data differ", im.label));
                }
                Ok(())
            }
            sub(&w.v, &w.m, &sel)?;
            sub(&w.h, &w.m, &sel)?;
        }
        Op::AppendSelf => {
            if w.m.verts.len() > 8 {
                return Ok(None);
            }
            // the scalar (and every factor) is squared: keep the squares inside the 64-bit
            // mantissas, beyond which quizx legitimately rounds and flags them approximate
            // (exactness of scalar arithmetic is C07's subject, not this check's)
            let big = |z: &Zw| z.c.iter().any(|c| c.unsigned_abs() > (1 << 14)) || z.e.abs() > (1 << 20);
            if big(&w.m.scalar) || w.m.factors.values().any(big) {
                return Ok(None);
            }
            // model: duplicate everything, scalar squared, boundary lists unchanged
            let old = w.m.clone();
            let mut map: BTreeMap<Mid, Mid> = BTreeMap::new();
            for (&mid, mv) in &old.verts {
                let n = w.m.next;
                w.m.next += 1;
                w.m.verts.insert(n, mv.clone());
                map.insert(mid, n);
            }
            for (&(a, b), &t) in &old.edges {
                w.m.edges.insert(Model::ekey(map[&a], map[&b]), t);
            }
            w.m.scalar = old.scalar.mul(&old.scalar);
            // "the scalars are multiplied": the conditioned factors are part of the scalar
            for (k, f) in old.factors.iter() {
                w.m.factors.insert(k.clone(), f.mul(f));
            }
            fn app<G: GraphLike + PartialEq>(
                im: &mut Impl<G>,
                map: &BTreeMap<Mid, Mid>,
            ) -> Result<(), String> {
                let other = im.g.clone();
                let label = im.label;
                let before = im.live();
                let g = &mut im.g;
                let vmap = guarded(&format!("{label}: append_graph"), || g.append_graph(&other))?;
                let mut seen = BTreeSet::new();
                for (&mid, &newmid) in map {
                    let old_name = im.name[&mid];
                    let Some(&nn) = vmap.get(&old_name) else {
                        return Err(format!("{label}: append_graph map lacks vertex {old_name}"));
                    };
                    if before.contains(&nn) || !seen.insert(nn) {
                        return Err(format!("{label}: append_graph maps {old_name} to the non-fresh name {nn}"));
                    }
                    im.name.insert(newmid, nn);
                }
                if vmap.len() != map.len() {
                    return Err(format!("{label}: append_graph map has {} entries, expected {}", vmap.len(), map.len()));
                }
                Ok(())
            }
            app(&mut w.v, &map)?;
            app(&mut w.h, &map)?;
            obs.class("append");
        }
        Op::XToZ => {
            let xs: Vec<Mid> = w
                .m
                .verts
                .iter()
                .filter(|(_, v)| v.ty == VType::X)
                .map(|(&m, _)| m)
                .collect();
            if w.m.edges.values().any(|&t| t == EType::Wio) {
                return Ok(None);
            }
            for x in xs {
                w.m.verts.get_mut(&x).unwrap().ty = VType::Z;
                for (n, _) in w.m.neighbors(x) {
                    let k = Model::ekey(x, n);
                    let t = w.m.edges[&k];
                    w.m.edges.insert(k, t.opposite());
                }
            }
            both!(w, &what, |im| im.g.x_to_z());
        }
        Op::Adjoint => {
            for v in w.m.verts.values_mut() {
                v.phase = crate::oracle::diag::norm_phase((-v.phase.0, v.phase.1));
            }
            std::mem::swap(&mut w.m.inputs, &mut w.m.outputs);
            w.m.scalar = w.m.scalar.conj();
            // the conditioned factors are part of the scalar
            for f in w.m.factors.values_mut() {
                *f = f.conj();
            }
            both!(w, &what, |im| im.g.adjoint());
        }
    }
    Ok(None)
}

#[derive(Clone, Debug, Serialize, Deserialize)]
pub struct History {
    pub ops: Vec<Op>,
}

fn check(h: &History, obs: &mut Obs) -> Result<(), String> {
    let mut w = World {
        m: Model::new(),
        v: Impl {
            g: quizx::vec_graph::Graph::new(),
            name: BTreeMap::new(),
            label: "vec",
        },
        h: Impl {
            g: quizx::hash_graph::Graph::new(),
            name: BTreeMap::new(),
            label: "hash",
        },
    };
    compare(&w.m, &w.v, "new()")?;
    compare(&w.m, &w.h, "new()")?;
    for (i, op) in h.ops.iter().enumerate() {
        let r = apply(&mut w, op, obs)?;
        if r.is_some() {
            // a known finding left one backend in an unusable state: stop this history
            break;
        }
        let step = format!("step {i} {op:?}");
        guarded("harness compare", || ()).ok();
        compare(&w.m, &w.v, &step)?;
        compare(&w.m, &w.h, &step)?;
    }
    obs.classes.sort();
    obs.classes.dedup();
    if obs
        .classes
        .iter()
        .any(|c| matches!(*c, "hole-reuse" | "pack-after-deletions" | "named:beyond-range"))
    {
        obs.nontrivial();
    }
    Ok(())
}

fn data_spec() -> BoxedStrategy<DataSpec> {
    (
        0u8..4,
        prop_oneof![Just((0i64, 1i64)), Just((1, 1)), Just((1, 2)), Just((1, 4)), Just((-3, 4)), Just((2, 3))],
        prop::collection::vec(0u32..4, 0..=2),
        -6i16..=6,
        -6i16..=6,
    )
        .prop_map(|(ty, phase, vars, qubit, row)| DataSpec {
            ty,
            phase,
            vars,
            qubit,
            row,
        })
        .boxed()
}

fn op_strategy() -> BoxedStrategy<Op> {
    let r = any::<u16>;
    let ph = prop_oneof![Just((0i64, 1i64)), Just((1, 1)), Just((1, 2)), Just((-1, 4)), Just((5, 3)), Just((7, 4))];
    prop_oneof![
        6 => (0u8..4).prop_map(Op::AddVertex),
        4 => data_spec().prop_map(Op::AddVertexWithData),
        3 => (prop_oneof![Just(0u8), Just(1u8), Just(1u8), Just(2u8), Just(3u8), Just(5u8)], r(), data_spec())
            .prop_map(|(k, x, d)| Op::AddNamed(k, x, d)),
        5 => r().prop_map(Op::RemoveVertex),
        8 => (r(), r(), any::<bool>()).prop_map(|(a, b, h)| Op::AddEdge(a, b, h)),
        1 => (r(), prop_oneof![0u8..4, 4u8..12, 16u8..28], any::<bool>()).prop_map(|(a, k, h)| Op::Hub(a, k, h)),
        3 => r().prop_map(Op::RemoveEdge),
        2 => (r(), any::<bool>()).prop_map(|(a, h)| Op::SetEdgeType(a, h)),
        2 => r().prop_map(Op::ToggleEdgeType),
        2 => (0u8..4, ph.clone()).prop_map(|(t, p)| Op::AddVertexWithPhase(t, p)),
        1 => (r(), data_spec()).prop_map(|(a, d)| Op::OverwriteData(a, d)),
        4 => (r(), r(), any::<bool>()).prop_map(|(a, b, h)| Op::AddEdgeSmart(a, b, h)),
        3 => (r(), any::<bool>()).prop_map(|(a, h)| Op::SmartOnEdge(a, h)),
        2 => (r(), 0u8..4).prop_map(|(a, t)| Op::SetType(a, t)),
        2 => (r(), ph.clone()).prop_map(|(a, p)| Op::SetPhase(a, p)),
        2 => (r(), ph).prop_map(|(a, p)| Op::AddToPhase(a, p)),
        1 => (r(), -5i16..=5, -5i16..=5).prop_map(|(a, x, y)| Op::SetCoord(a, x, y)),
        1 => (r(), -5i16..=5).prop_map(|(a, x)| Op::SetQubit(a, x)),
        1 => (r(), -5i16..=5).prop_map(|(a, x)| Op::SetRow(a, x)),
        1 => (r(), prop::collection::vec(0u32..4, 0..=3)).prop_map(|(a, v)| Op::SetVars(a, v)),
        1 => (r(), prop::collection::vec(0u32..4, 0..=3)).prop_map(|(a, v)| Op::AddToVars(a, v)),
        2 => prop::collection::vec(r(), 0..=3).prop_map(Op::SetInputs),
        2 => prop::collection::vec(r(), 0..=3).prop_map(Op::SetOutputs),
        1 => r().prop_map(Op::PushInput),
        1 => r().prop_map(Op::PushOutput),
        1 => Just(Op::PopInput),
        1 => (-3i8..=3).prop_map(Op::MulSqrt2),
        1 => (0i8..8).prop_map(Op::MulPhase),
        1 => (prop::array::uniform4(-2i8..=2), -2i8..=2).prop_map(|(c, e)| Op::SetScalar(c, e)),
        1 => (prop::collection::vec(0u32..3, 1..=2), any::<bool>(), prop::array::uniform4(-1i8..=1))
            .prop_map(|(v, n, c)| Op::MulFactor(v, n, c)),
        3 => any::<bool>().prop_map(Op::Pack),
        1 => Just(Op::CloneAndContinue),
        1 => any::<u32>().prop_map(Op::Subgraph),
        1 => Just(Op::AppendSelf),
        1 => Just(Op::XToZ),
        1 => Just(Op::Adjoint),
    ]
    .boxed()
}

pub fn def(ctx: &Ctx) -> PropertyDef {
    let t = ctx.tier;
    let maxlen = t.pick(40, 150);
    PropertyDef {
        id: "C09",
        rule: "histories of <=40 (150) operations of the public GraphLike interface with valid arguments resolved against a plain reference model (add vertex typed / with data / named: existing name, free name inside the range, beyond the range; remove vertex; add/remove edge; hub (k<=27 fresh leaves plus an edge to every other live vertex); set / toggle edge type; add_vertex_with_phase; whole-record overwrite through vertex_data_mut; add_edge_smart incl. parallel edges and self-loops on Z/X; set type/phase/coords/vars; inputs/outputs edits; scalar and scalar-factor edits; pack(false|true); clone-and-continue; sub-graph; append; x_to_z; adjoint). After every step both backends are compared with the model (and hence with each other): counts == enumerations, vertex data, each edge once with s<=t, symmetric adjacency, contains_vertex/edge_type_opt/edge_type/connected in both orientations over all names incl. dead ones (name ranges > 40: the rows of the extreme-degree, first, middle, last and two dead names), inputs/outputs, scalar and factors, find_vertex/find_edge witnesses, components, vindex above every name, clone equal and independent, pack = order-preserving renaming. Non-trivial = the history re-uses a hole, packs after deletions, or inserts a name beyond the range. Distinct by hash of the history.",
        assumptions: vec![
            "reference model written for the harness; add_edge_smart's documented case table is re-implemented in the model",
            "find_edge is probed with orientation-symmetric predicates (the hash backend enumerates both orientations)",
        ],
        sections: vec![Section::random(
            "histories",
            ctx.cases(60000, 300000),
            move || {
                prop::collection::vec(op_strategy(), 0..=maxlen).prop_map(|ops| History { ops })
            },
            check,
        )],
    }
}
