//! Helpers shared by the property checks.

use crate::engine::catch;
use crate::oracle::diag::{read_scalar, snapshot, Diag, MScalar};
use crate::oracle::ring::{tensors_close, tensors_equal_exact, Ring, Zw, C64};
use crate::oracle::zxeval::{self, EvalErr, Tens};
use quizx::graph::GraphLike;
use quizx::tensor::Tensor4;

pub const REL_TOL: f64 = 1e-9;
/// absolute floor, as a multiple of the magnitude of the stored scalar (exact zeros evaluate to
/// rounding noise in floating point)
pub const ABS_NOISE: f64 = 1e-11;

/// Flatten a quizx exact tensor (logical/row-major order) into model scalars.
pub fn tensor4_entries(t: &Tensor4) -> Result<Vec<MScalar>, String> {
    if t.shape().iter().any(|&s| s != 2) {
        return Err(format!("tensor has a non-qubit shape {:?}", t.shape()));
    }
    Ok(t.iter().map(read_scalar).collect())
}

pub fn entries_to_c64(e: &[MScalar]) -> Vec<C64> {
    e.iter().map(|s| C64(s.to_c64())).collect()
}

/// The oracle value of a diagram: exact if everything is representable exactly, else float.
pub enum Truth {
    Exact(Tens<Zw>),
    Float(Tens<C64>),
}

impl Truth {
    pub fn rank(&self) -> usize {
        match self {
            Truth::Exact(t) => t.rank(),
            Truth::Float(t) => t.rank(),
        }
    }
    pub fn n_in(&self) -> usize {
        match self {
            Truth::Exact(t) => t.n_in,
            Truth::Float(t) => t.n_in,
        }
    }
    pub fn n_out(&self) -> usize {
        match self {
            Truth::Exact(t) => t.n_out,
            Truth::Float(t) => t.n_out,
        }
    }
    pub fn to_float(&self) -> Vec<C64> {
        match self {
            Truth::Exact(t) => t.data.iter().map(|z| C64(z.to_c64())).collect(),
            Truth::Float(t) => t.data.clone(),
        }
    }
    pub fn is_exact(&self) -> bool {
        matches!(self, Truth::Exact(_))
    }
    pub fn scale(&self) -> f64 {
        match self {
            Truth::Exact(t) => t.scale,
            Truth::Float(t) => t.scale,
        }
    }
    /// absolute noise floor for float comparisons against this value
    pub fn noise(&self) -> f64 {
        ABS_NOISE * self.scale()
    }
}

pub fn truth_of(d: &Diag) -> Result<Truth, EvalErr> {
    if d.all_phases_quarter() && d.scalar.is_exact() {
        match zxeval::eval::<Zw>(d) {
            Ok(t) => return Ok(Truth::Exact(t)),
            Err(EvalErr::NotRepresentable) => {}
            Err(e) => return Err(e),
        }
    }
    zxeval::eval::<C64>(d).map(Truth::Float)
}

/// Compare two truths (before/after a rewrite).
pub fn same_truth(a: &Truth, b: &Truth, rel: f64) -> Result<(), String> {
    if a.n_in() != b.n_in() || a.n_out() != b.n_out() {
        return Err(format!(
            "arity changed: {}->{} vs {}->{}",
            a.n_in(),
            a.n_out(),
            b.n_in(),
            b.n_out()
        ));
    }
    match (a, b) {
        (Truth::Exact(x), Truth::Exact(y)) => tensors_equal_exact(&x.data, &y.data),
        _ => tensors_close(&a.to_float(), &b.to_float(), rel, a.noise().max(b.noise())),
    }
}

/// Compare entries produced by quizx with the oracle value.  When the oracle is exact and
/// `require_exact`, every entry must be flagged exact and equal; otherwise tolerance `rel`.
pub fn entries_match(got: &[MScalar], truth: &Truth, require_exact: bool, rel: f64) -> Result<(), String> {
    match truth {
        Truth::Exact(t) if require_exact => {
            if got.len() != t.data.len() {
                return Err(format!("tensor has {} entries, expected {}", got.len(), t.data.len()));
            }
            let mut g = Vec::with_capacity(got.len());
            for (i, s) in got.iter().enumerate() {
                match s {
                    MScalar::Exact(z) => g.push(*z),
                    MScalar::Float(re, im) => {
                        return Err(format!(
                            "entry {i} is flagged approximate ({re}+{im}i) although the diagram is exact (expected {:?})",
                            t.data[i]
                        ))
                    }
                }
            }
            tensors_equal_exact(&g, &t.data)
        }
        _ => tensors_close(&entries_to_c64(got), &truth.to_float(), rel, truth.noise()),
    }
}

/// Evaluate a quizx graph through the harness: snapshot + well-formedness + oracle.
pub fn truth_of_graph<G: GraphLike>(g: &G) -> Result<Truth, String> {
    let snap = snapshot(g)?;
    snap.diag.check_wellformed()?;
    truth_of(&snap.diag).map_err(|e| format!("{e:?}"))
}

pub enum GraphTruth {
    Ok(Truth),
    Malformed(String),
    TooBig,
}

pub fn graph_truth<G: GraphLike>(g: &G) -> GraphTruth {
    let snap = match snapshot(g) {
        Ok(s) => s,
        Err(e) => return GraphTruth::Malformed(e),
    };
    if let Err(e) = snap.diag.check_wellformed() {
        return GraphTruth::Malformed(e);
    }
    match truth_of(&snap.diag) {
        Ok(t) => GraphTruth::Ok(t),
        Err(EvalErr::TooBig) => GraphTruth::TooBig,
        Err(EvalErr::Malformed(m)) => GraphTruth::Malformed(m),
        Err(EvalErr::NotRepresentable) => GraphTruth::Malformed("scalar not representable".into()),
    }
}

/// run a closure on a quizx value, converting a panic into Err(message)
pub fn guarded<T>(what: &str, f: impl FnOnce() -> T) -> Result<T, String> {
    catch(f).map_err(|p| format!("{what} panicked: {p}"))
}

pub fn ring_name<R: Ring>() -> &'static str {
    if R::exact() {
        "exact"
    } else {
        "float"
    }
}
