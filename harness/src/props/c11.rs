//! C11 — composition, adjoint, basis plugging and the identity test match linear algebra.

use super::common::*;
use crate::engine::{Ctx, Obs, PropertyDef, Section};
use crate::gen::diag::{diag_spec, DiagParams, DiagSpec, Palette};
use crate::oracle::diag::{build, Diag, IdPlan, VK};
use crate::oracle::ring::{tensors_close, tensors_equal_exact, Ring, Zw, C64};
use crate::oracle::zxeval::{eval, EvalErr, Tens};
use proptest::prelude::*;
use quizx::graph::{BasisElem, EType, GraphLike, VType, V};
use serde::{Deserialize, Serialize};

fn compose<R: Ring>(a: &Tens<R>, b: &Tens<R>) -> Tens<R> {
    // a: in_a -> m, b: m -> out_b
    assert_eq!(a.n_out, b.n_in);
    let (ni, m, no) = (a.n_in, a.n_out, b.n_out);
    let mut data = vec![R::zero(); 1 << (ni + no)];
    for i in 0..(1usize << ni) {
        for k in 0..(1usize << m) {
            let x = &a.data[(i << m) | k];
            if x.is_zero() {
                continue;
            }
            for o in 0..(1usize << no) {
                let y = &b.data[(k << no) | o];
                if !y.is_zero() {
                    let idx = (i << no) | o;
                    data[idx] = data[idx].add(&x.mul(y));
                }
            }
        }
    }
    Tens {
        n_in: ni,
        n_out: no,
        data,
        scale: a.scale * b.scale,
    }
}

fn tensor_product<R: Ring>(a: &Tens<R>, b: &Tens<R>) -> Tens<R> {
    // index order: in_a, in_b, out_a, out_b
    let (ia, oa, ib, ob) = (a.n_in, a.n_out, b.n_in, b.n_out);
    let mut data = vec![R::zero(); 1 << (ia + oa + ib + ob)];
    for xa in 0..(1usize << ia) {
        for xb in 0..(1usize << ib) {
            for ya in 0..(1usize << oa) {
                for yb in 0..(1usize << ob) {
                    let idx = (((((xa << ib) | xb) << oa) | ya) << ob) | yb;
                    data[idx] = a.data[(xa << oa) | ya].mul(&b.data[(xb << ob) | yb]);
                }
            }
        }
    }
    Tens {
        n_in: ia + ib,
        n_out: oa + ob,
        data,
        scale: a.scale * b.scale,
    }
}

fn dagger<R: Ring>(a: &Tens<R>) -> Tens<R> {
    let (ni, no) = (a.n_in, a.n_out);
    let mut data = vec![R::zero(); a.data.len()];
    for i in 0..(1usize << ni) {
        for o in 0..(1usize << no) {
            data[(o << ni) | i] = a.data[(i << no) | o].conj();
        }
    }
    Tens {
        n_in: no,
        n_out: ni,
        data,
        scale: a.scale,
    }
}

fn basis_vec<R: Ring>(b: BasisElem) -> Option<[R; 2]> {
    let s = R::sqrt2_pow(-1);
    Some(match b {
        BasisElem::Z0 => [R::one(), R::zero()],
        BasisElem::Z1 => [R::zero(), R::one()],
        BasisElem::X0 => [s.clone(), s],
        BasisElem::X1 => [s.clone(), s.neg()],
        BasisElem::SKIP => return None,
    })
}

/// contract the listed basis elements into the inputs (`on_inputs`) or outputs of `a`;
/// `plug[i]` applies to wire i, missing entries and SKIP leave the wire open
fn plug_tensor<R: Ring>(a: &Tens<R>, plug: &[BasisElem], on_inputs: bool) -> Tens<R> {
    let (ni, no) = (a.n_in, a.n_out);
    let n = if on_inputs { ni } else { no };
    let vecs: Vec<Option<[R; 2]>> = (0..n)
        .map(|i| plug.get(i).and_then(|&b| basis_vec::<R>(b)))
        .collect();
    let open: Vec<usize> = (0..n).filter(|&i| vecs[i].is_none()).collect();
    let (rni, rno) = if on_inputs {
        (open.len(), no)
    } else {
        (ni, open.len())
    };
    let mut data = vec![R::zero(); 1 << (rni + rno)];
    for idx in 0..a.data.len() {
        let x = &a.data[idx];
        if x.is_zero() {
            continue;
        }
        let (i, o) = (idx >> no, idx & ((1 << no) - 1));
        let side = if on_inputs { i } else { o };
        let mut coef = x.clone();
        let mut rest = 0usize;
        for w in 0..n {
            let bit = (side >> (n - 1 - w)) & 1;
            match &vecs[w] {
                Some(v) => coef = coef.mul(&v[bit]),
                None => rest = (rest << 1) | bit,
            }
        }
        if coef.is_zero() {
            continue;
        }
        let ridx = if on_inputs {
            (rest << no) | o
        } else {
            (i << open.len()) | rest
        };
        data[ridx] = data[ridx].add(&coef);
    }
    Tens {
        n_in: rni,
        n_out: rno,
        data,
        scale: a.scale,
    }
}

trait Cmp: Ring {
    fn same(a: &Tens<Self>, b: &Tens<Self>) -> Result<(), String>;
}
impl Cmp for Zw {
    fn same(a: &Tens<Zw>, b: &Tens<Zw>) -> Result<(), String> {
        if a.n_in != b.n_in || a.n_out != b.n_out {
            return Err(format!("arity {}->{} vs {}->{}", a.n_in, a.n_out, b.n_in, b.n_out));
        }
        tensors_equal_exact(&a.data, &b.data)
    }
}
impl Cmp for C64 {
    fn same(a: &Tens<C64>, b: &Tens<C64>) -> Result<(), String> {
        if a.n_in != b.n_in || a.n_out != b.n_out {
            return Err(format!("arity {}->{} vs {}->{}", a.n_in, a.n_out, b.n_in, b.n_out));
        }
        tensors_close(&a.data, &b.data, REL_TOL, ABS_NOISE * a.scale.max(b.scale))
    }
}

fn eval_graph<R: Ring, G: GraphLike>(g: &G) -> Result<Option<Tens<R>>, String> {
    let snap = crate::oracle::diag::snapshot(g)?;
    snap.diag.check_wellformed()?;
    match eval::<R>(&snap.diag) {
        Ok(t) => Ok(Some(t)),
        Err(EvalErr::TooBig) => Ok(None),
        Err(e) => Err(format!("{e:?}")),
    }
}

/// make `h` composable after `g`: as many inputs as `g` has outputs
fn make_composable(g: &Diag, h: &mut Diag) {
    let n = g.outputs.len();
    while h.inputs.len() > n {
        let b = h.inputs.pop().unwrap();
        h.outputs.push(b);
    }
    while h.inputs.len() < n {
        let a = h.add_vert(VK::B, (0, 1));
        let b = h.add_vert(VK::B, (0, 1));
        h.add_edge(a, b, false);
        h.inputs.push(a);
        h.outputs.push(b);
    }
}

#[derive(Clone, Debug, Serialize, Deserialize)]
pub struct PairCase {
    pub g: DiagSpec,
    pub h: DiagSpec,
}

fn check_pair_in<R: Cmp, G: GraphLike + PartialEq, H: GraphLike>(
    dg: &Diag,
    dh: &Diag,
    pg: &IdPlan,
    ph: &IdPlan,
    name: &str,
    obs: &mut Obs,
) -> Result<(), String> {
    let (Ok(tg), Ok(th)) = (eval::<R>(dg), eval::<R>(dh)) else {
        obs.skip("oracle");
        return Ok(());
    };
    let (g, _) = build::<G>(dg, pg);
    let (h, _) = build::<H>(dh, ph);
    // plug
    {
        let mut p = g.clone();
        let r = guarded(&format!("{name}: plug"), || p.plug(&h));
        match r {
            Err(e) => {
                // classifier: a closed loop formed by a cap of g meeting a cup of h
                let cap_cup = (0..dg.outputs.len()).any(|k| {
                    let o = dg.outputs[k];
                    let no = dg.neighbors(o)[0].0;
                    let i = dh.inputs[k];
                    let ni = dh.neighbors(i)[0].0;
                    if let (Some(k2), Some(k3)) = (
                        dg.outputs.iter().position(|&x| x == no),
                        dh.inputs.iter().position(|&x| x == ni),
                    ) {
                        k2 == k3
                    } else {
                        false
                    }
                });
                if cap_cup {
                    return obs.known(
                        "plug-cap-cup-loop",
                        format!("plug panics when an output-output wire meets an input-input wire (closed loop): {e}"),
                    );
                }
                return Err(e);
            }
            Ok(()) => {}
        }
        let want = compose(&tg, &th);
        match eval_graph::<R, G>(&p) {
            Ok(Some(got)) => R::same(&want, &got)
                .map_err(|e| format!("{name}: plug(g,h) is not the composition: {e}"))?,
            Ok(None) => obs.skip("oracle-too-big"),
            Err(e) => return Err(format!("{name}: plug(g,h) is malformed: {e}")),
        }
    }
    // append = tensor product
    if tg.rank() + th.rank() > 11 {
        obs.skip("append-rank>11");
    } else {
        let mut p = g.clone();
        let vmap = guarded(&format!("{name}: append_graph"), || p.append_graph(&h))?;
        let mut ins = p.inputs().clone();
        let mut outs = p.outputs().clone();
        for i in h.inputs() {
            ins.push(*vmap.get(i).ok_or_else(|| format!("{name}: append_graph map lacks input {i}"))?);
        }
        for o in h.outputs() {
            outs.push(*vmap.get(o).ok_or_else(|| format!("{name}: append_graph map lacks output {o}"))?);
        }
        p.set_inputs(ins);
        p.set_outputs(outs);
        let want = tensor_product(&tg, &th);
        match eval_graph::<R, G>(&p) {
            Ok(Some(got)) => R::same(&want, &got)
                .map_err(|e| format!("{name}: append_graph is not the tensor product: {e}"))?,
            Ok(None) => obs.skip("oracle-too-big"),
            Err(e) => return Err(format!("{name}: append_graph result is malformed: {e}")),
        }
    }
    // adjoint
    {
        let a = guarded(&format!("{name}: to_adjoint"), || g.to_adjoint())?;
        let want = dagger(&tg);
        match eval_graph::<R, G>(&a) {
            Ok(Some(got)) => R::same(&want, &got)
                .map_err(|e| format!("{name}: adjoint is not the conjugate transpose: {e}"))?,
            Ok(None) => obs.skip("oracle-too-big"),
            Err(e) => return Err(format!("{name}: adjoint is malformed: {e}")),
        }
        // the in-place form is the same operation
        let mut inpl = g.clone();
        guarded(&format!("{name}: adjoint (in place)"), || inpl.adjoint())?;
        if inpl != a {
            return Err(format!("{name}: adjoint() in place differs from to_adjoint()"));
        }
        let aa = a.to_adjoint();
        if aa != g {
            // approximate scalars may differ in flags only; compare tensors then
            match eval_graph::<R, G>(&aa) {
                Ok(Some(got)) => R::same(&tg, &got)
                    .map_err(|e| format!("{name}: adjoint is not an involution: {e}"))?,
                _ => {}
            }
            if R::exact() {
                return Err(format!("{name}: adjoint(adjoint(g)) != g"));
            }
        }
    }
    // x_to_z keeps the tensor
    {
        let mut z = g.clone();
        guarded(&format!("{name}: x_to_z"), || z.x_to_z())?;
        if z.vertices().any(|v| z.vertex_type(v) == VType::X) {
            return Err(format!("{name}: x_to_z left an X spider"));
        }
        match eval_graph::<R, G>(&z) {
            Ok(Some(got)) => {
                R::same(&tg, &got).map_err(|e| format!("{name}: x_to_z changed the map: {e}"))?
            }
            Ok(None) => obs.skip("oracle-too-big"),
            Err(e) => return Err(format!("{name}: x_to_z result is malformed: {e}")),
        }
    }
    Ok(())
}

fn check_pair(c: &PairCase, obs: &mut Obs) -> Result<(), String> {
    let dg = c.g.to_diag();
    let mut dh = c.h.to_diag();
    make_composable(&dg, &mut dh);
    check_pair_diags(c, dg, dh, obs)
}

/// interface spiders of high degree: a spider of each side gets `leaves` closed one-legged
/// neighbours and `m` extra seam wires, so that plugging joins two hubs by several wires at once
#[derive(Clone, Debug, Serialize, Deserialize)]
pub struct HubCase {
    pub pair: PairCase,
    pub g_hub: (u16, u8),
    pub h_hub: (u16, u8),
    pub m: u8,
    pub bits: u16,
}

fn hubify(d: &mut Diag, raw: u16, leaves: u8, bits: u16) -> usize {
    let spiders: Vec<usize> = (0..d.verts.len()).filter(|&i| d.verts[i].kind != VK::B).collect();
    let hub = if spiders.is_empty() {
        d.add_vert(if bits & 1 == 1 { VK::X } else { VK::Z }, (0, 1))
    } else {
        spiders[crate::gen::idx(raw, spiders.len())]
    };
    for j in 0..leaves as usize {
        let kind = if (bits >> (j % 13)) & 1 == 1 { VK::X } else { VK::Z };
        let phase = [(0, 1), (1, 4), (1, 1), (1, 2), (-1, 4), (3, 4)][(j + bits as usize) % 6];
        let l = d.add_vert(kind, phase);
        d.add_edge(hub, l, (bits >> ((j + 5) % 16)) & 1 == 1);
    }
    hub
}

fn check_hub(c: &HubCase, obs: &mut Obs) -> Result<(), String> {
    let mut dg = c.pair.g.to_diag();
    let mut dh = c.pair.h.to_diag();
    make_composable(&dg, &mut dh);
    let hg = hubify(&mut dg, c.g_hub.0, c.g_hub.1, c.bits);
    let hh = hubify(&mut dh, c.h_hub.0, c.h_hub.1, c.bits.rotate_left(7));
    for j in 0..(1 + c.m as usize % 3) {
        let o = dg.add_vert(VK::B, (0, 1));
        dg.add_edge(hg, o, (c.bits >> (j + 3)) & 1 == 1);
        dg.outputs.push(o);
        let i = dh.add_vert(VK::B, (0, 1));
        dh.add_edge(hh, i, (c.bits >> (j + 9)) & 1 == 1);
        dh.inputs.push(i);
    }
    obs.class_if(dg.degree(hg) > 8, "g-hub-degree>8");
    obs.class_if(dh.degree(hh) > 8, "h-hub-degree>8");
    obs.class_if(dg.degree(hg) > 16 || dh.degree(hh) > 16, "hub-degree>16");
    check_pair_diags(&c.pair, dg, dh, obs)
}

/// diagrams whose spiders carry boolean variables (a phase gains pi where the parity is odd):
/// composing and then substituting values must equal substituting and then composing
fn check_pair_vars<G: GraphLike>(dg: &Diag, dh: &Diag, pg: &IdPlan, ph: &IdPlan, name: &str, obs: &mut Obs) -> Result<(), String> {
    let (g, _) = build::<G>(dg, pg);
    let (h, _) = build::<G>(dh, ph);
    let mut plugged = g.clone();
    guarded(&format!("{name}: plug (diagrams with variables)"), || plugged.plug(&h))?;
    let mut appended = g.clone();
    let vmap = guarded(&format!("{name}: append_graph (diagrams with variables)"), || appended.append_graph(&h))?;
    let mut ins = appended.inputs().clone();
    let mut outs = appended.outputs().clone();
    for i in h.inputs() {
        ins.push(*vmap.get(i).ok_or("append_graph map lacks an input")?);
    }
    for o in h.outputs() {
        outs.push(*vmap.get(o).ok_or("append_graph map lacks an output")?);
    }
    appended.set_inputs(ins);
    appended.set_outputs(outs);
    let adj = guarded(&format!("{name}: to_adjoint (diagram with variables)"), || g.to_adjoint())?;
    let sp = crate::oracle::diag::snapshot(&plugged)?.diag;
    let sa = crate::oracle::diag::snapshot(&appended)?.diag;
    let sj = crate::oracle::diag::snapshot(&adj)?.diag;
    for bits in [0u32, 0b0101, 0b1010, 0b1111, 0b0110] {
        let sigma = move |x: u32| (bits >> (x % 4)) & 1 == 1;
        let (Ok(tg), Ok(th)) = (eval::<Zw>(&dg.instantiate(&sigma)), eval::<Zw>(&dh.instantiate(&sigma))) else {
            obs.skip("oracle");
            return Ok(());
        };
        let what = format!("{name}: variables set to {bits:04b}");
        match eval::<Zw>(&sp.instantiate(&sigma)) {
            Ok(got) => Zw::same(&compose(&tg, &th), &got).map_err(|e| format!("{what}: plug(g,h) then substitution differs from substitution then composition: {e}"))?,
            Err(EvalErr::TooBig) => obs.skip("oracle-too-big"),
            Err(e) => return Err(format!("{what}: plug result malformed: {e:?}")),
        }
        if tg.rank() + th.rank() <= 11 {
            match eval::<Zw>(&sa.instantiate(&sigma)) {
                Ok(got) => Zw::same(&tensor_product(&tg, &th), &got).map_err(|e| format!("{what}: append_graph then substitution differs from substitution then tensor product: {e}"))?,
                Err(EvalErr::TooBig) => obs.skip("oracle-too-big"),
                Err(e) => return Err(format!("{what}: append result malformed: {e:?}")),
            }
        }
        match eval::<Zw>(&sj.instantiate(&sigma)) {
            Ok(got) => Zw::same(&dagger(&tg), &got).map_err(|e| format!("{what}: adjoint then substitution differs from substitution then conjugate transpose: {e}"))?,
            Err(EvalErr::TooBig) => obs.skip("oracle-too-big"),
            Err(e) => return Err(format!("{what}: adjoint malformed: {e:?}")),
        }
    }
    // conditioned scalar factors (what a simplifier leaves behind, C10) under the same operations
    {
        use super::c10::inst_truth;
        let mut gs = g.clone();
        guarded(&format!("{name}: clifford_simp"), || quizx::simplify::clifford_simp(&mut gs))?;
        if gs.scalar_factors().next().is_some() {
            obs.class("with-scalar-factors");
            let adj = guarded(&format!("{name}: to_adjoint (diagram with conditioned scalar factors)"), || gs.to_adjoint())?;
            let mut plugged = gs.clone();
            guarded(&format!("{name}: plug (diagram with conditioned scalar factors)"), || plugged.plug(&h))?;
            for sigma in 0..16u32 {
                let (Some(Truth::Exact(t)), Some(Truth::Exact(ta)), Some(Truth::Exact(th)), Some(Truth::Exact(tp))) =
                    (inst_truth(&gs, sigma)?, inst_truth(&adj, sigma)?, inst_truth(&h, sigma)?, inst_truth(&plugged, sigma)?)
                else {
                    obs.skip("oracle");
                    continue;
                };
                Zw::same(&dagger(&t), &ta).map_err(|e| {
                    format!("{name}: variables b0..b3={sigma:04b}: adjoint of a diagram with conditioned scalar factors, then substitution, differs from substitution then conjugate transpose: {e}")
                })?;
                Zw::same(&compose(&t, &th), &tp).map_err(|e| {
                    format!("{name}: variables b0..b3={sigma:04b}: plug of a diagram with conditioned scalar factors, then substitution, differs from substitution then composition: {e}")
                })?;
            }
        }
        // ... and as the *second* operand
        let mut hs = h.clone();
        guarded(&format!("{name}: clifford_simp"), || quizx::simplify::clifford_simp(&mut hs))?;
        if hs.scalar_factors().next().is_some() && hs.inputs().len() == g.outputs().len() {
            obs.class("second-operand-with-scalar-factors");
            let mut plugged = g.clone();
            guarded(&format!("{name}: plug (second operand with conditioned scalar factors)"), || plugged.plug(&hs))?;
            let mut appended = g.clone();
            let vmap = guarded(&format!("{name}: append_graph (second operand with conditioned scalar factors)"), || appended.append_graph(&hs))?;
            let mut ins = appended.inputs().clone();
            let mut outs = appended.outputs().clone();
            for i in hs.inputs() {
                ins.push(*vmap.get(i).ok_or("append_graph map lacks an input")?);
            }
            for o in hs.outputs() {
                outs.push(*vmap.get(o).ok_or("append_graph map lacks an output")?);
            }
            appended.set_inputs(ins);
            appended.set_outputs(outs);
            for sigma in 0..16u32 {
                let (Some(Truth::Exact(tg)), Some(Truth::Exact(th)), Some(Truth::Exact(tp))) =
                    (inst_truth(&g, sigma)?, inst_truth(&hs, sigma)?, inst_truth(&plugged, sigma)?)
                else {
                    obs.skip("oracle");
                    continue;
                };
                Zw::same(&compose(&tg, &th), &tp).map_err(|e| {
                    format!("{name}: variables b0..b3={sigma:04b}: plug(g, h) where h carries conditioned scalar factors, then substitution, differs from substitution then composition: {e}")
                })?;
                if tg.rank() + th.rank() <= 11 {
                    if let Some(Truth::Exact(ta)) = inst_truth(&appended, sigma)? {
                        Zw::same(&tensor_product(&tg, &th), &ta).map_err(|e| {
                            format!("{name}: variables b0..b3={sigma:04b}: append_graph(h) where h carries conditioned scalar factors, then substitution, differs from substitution then tensor product: {e}")
                        })?;
                    }
                }
            }
        }
    }
    obs.class("with-variables");
    Ok(())
}

fn check_pair_diags(c: &PairCase, dg: Diag, dh: Diag, obs: &mut Obs) -> Result<(), String> {
    if dg.has_vars() || dh.has_vars() {
        // the linear-algebra clauses below quantify over closed-form diagrams; parametrised ones
        // are checked assignment by assignment
        if dg.all_phases_quarter() && dh.all_phases_quarter() && dg.scalar.is_exact() && dh.scalar.is_exact() {
            check_pair_vars::<quizx::vec_graph::Graph>(&dg, &dh, &c.g.plan, &c.h.plan, "vec", obs)?;
            check_pair_vars::<quizx::hash_graph::Graph>(&dg, &dh, &c.g.plan, &c.h.plan, "hash", obs)?;
        }
        return Ok(());
    }
    let seam_h = dg
        .outputs
        .iter()
        .any(|&o| dg.neighbors(o)[0].1)
        || dh.inputs.iter().any(|&i| dh.neighbors(i)[0].1);
    let seam_bb = dg
        .outputs
        .iter()
        .any(|&o| dg.verts[dg.neighbors(o)[0].0].kind == VK::B)
        || dh
            .inputs
            .iter()
            .any(|&i| dh.verts[dh.neighbors(i)[0].0].kind == VK::B);
    obs.class_if(seam_h, "seam-hadamard");
    obs.class_if(seam_bb, "seam-boundary-boundary");
    if !dg.outputs.is_empty() && (seam_h || seam_bb) {
        obs.nontrivial();
    }
    let exact = dg.all_phases_quarter()
        && dh.all_phases_quarter()
        && dg.scalar.is_exact()
        && dh.scalar.is_exact();
    use quizx::hash_graph::Graph as HG;
    use quizx::vec_graph::Graph as VG;
    if exact {
        obs.class("exact");
        check_pair_in::<Zw, VG, VG>(&dg, &dh, &c.g.plan, &c.h.plan, "vec+vec", obs)?;
        check_pair_in::<Zw, HG, VG>(&dg, &dh, &c.g.plan, &c.h.plan, "hash+vec", obs)?;
        check_pair_in::<Zw, VG, HG>(&dg, &dh, &c.g.plan, &c.h.plan, "vec+hash", obs)?;
    } else {
        obs.class("float");
        check_pair_in::<C64, VG, VG>(&dg, &dh, &c.g.plan, &c.h.plan, "vec+vec", obs)?;
        check_pair_in::<C64, HG, HG>(&dg, &dh, &c.g.plan, &c.h.plan, "hash+hash", obs)?;
    }
    Ok(())
}

// ------------------------------------------------------------------------------------------
// basis plugging

#[derive(Clone, Debug, Serialize, Deserialize)]
pub struct PlugCase {
    pub g: DiagSpec,
    pub ins: Vec<u8>,
    pub outs: Vec<u8>,
    pub single: (u16, u8, bool),
}

fn basis(b: u8) -> BasisElem {
    match b % 5 {
        0 => BasisElem::Z0,
        1 => BasisElem::Z1,
        2 => BasisElem::X0,
        3 => BasisElem::X1,
        _ => BasisElem::SKIP,
    }
}

fn check_plug_in<R: Cmp, G: GraphLike>(
    d: &Diag,
    plan: &IdPlan,
    c: &PlugCase,
    name: &str,
    obs: &mut Obs,
) -> Result<(), String> {
    let Ok(t) = eval::<R>(d) else {
        obs.skip("oracle");
        return Ok(());
    };
    let (g, _) = build::<G>(d, plan);
    let ni = d.inputs.len();
    let no = d.outputs.len();
    let ins: Vec<BasisElem> = c.ins.iter().take(ni).map(|&b| basis(b)).collect();
    let outs: Vec<BasisElem> = c.outs.iter().take(no).map(|&b| basis(b)).collect();
    for (on_inputs, list, n) in [(true, &ins, ni), (false, &outs, no)] {
        let mut p = g.clone();
        let what = format!(
            "{name}: plug_{}({list:?}) on {n} wires",
            if on_inputs { "inputs" } else { "outputs" }
        );
        let r = guarded(&what, || {
            if on_inputs {
                p.plug_inputs(list)
            } else {
                p.plug_outputs(list)
            }
        });
        if let Err(e) = r {
            if list.len() < n {
                return obs.known(
                    "plug-list-shorter-than-wires",
                    format!("plug_inputs/plug_outputs index the list before testing its length: {e}"),
                );
            }
            return Err(e);
        }
        let want = plug_tensor(&t, list, on_inputs);
        match eval_graph::<R, G>(&p) {
            Ok(Some(got)) => R::same(&want, &got).map_err(|e| format!("{what}: wrong map: {e}"))?,
            Ok(None) => obs.skip("oracle-too-big"),
            Err(e) => return Err(format!("{what}: result malformed: {e}")),
        }
    }
    // single plug_input / plug_output
    let (raw, b, on_inputs) = c.single;
    let n = if on_inputs { ni } else { no };
    let be = basis(b);
    if n > 0 && be != BasisElem::SKIP {
        let i = crate::gen::idx(raw, n);
        let mut p = g.clone();
        let what = format!(
            "{name}: plug_{}({i},{be:?})",
            if on_inputs { "input" } else { "output" }
        );
        guarded(&what, || {
            if on_inputs {
                p.plug_input(i, be)
            } else {
                p.plug_output(i, be)
            }
        })?;
        let mut list = vec![BasisElem::SKIP; n];
        list[i] = be;
        let want = plug_tensor(&t, &list, on_inputs);
        match eval_graph::<R, G>(&p) {
            Ok(Some(got)) => R::same(&want, &got).map_err(|e| format!("{what}: wrong map: {e}"))?,
            Ok(None) => obs.skip("oracle-too-big"),
            Err(e) => return Err(format!("{what}: result malformed: {e}")),
        }
    }
    Ok(())
}

fn check_plug(c: &PlugCase, obs: &mut Obs) -> Result<(), String> {
    let d = c.g.to_diag();
    let ni = d.inputs.len();
    let no = d.outputs.len();
    let short = c.ins.len() < ni || c.outs.len() < no;
    let skip = c.ins.iter().take(ni).any(|&b| b % 5 == 4) || c.outs.iter().take(no).any(|&b| b % 5 == 4);
    obs.class_if(short, "list-shorter-than-wires");
    obs.class_if(skip, "has-skip");
    if (ni + no) > 0 && (short || skip) {
        obs.nontrivial();
    }
    if d.all_phases_quarter() && d.scalar.is_exact() {
        check_plug_in::<Zw, quizx::vec_graph::Graph>(&d, &c.g.plan, c, "vec", obs)?;
        check_plug_in::<Zw, quizx::hash_graph::Graph>(&d, &c.g.plan, c, "hash", obs)?;
    } else {
        check_plug_in::<C64, quizx::vec_graph::Graph>(&d, &c.g.plan, c, "vec", obs)?;
    }
    Ok(())
}

// ------------------------------------------------------------------------------------------
// wide diagrams: a tensor product of many small components, so that the maps stay computable
// component by component while wire counts, list lengths and vertex names grow large

#[derive(Clone, Debug, Serialize, Deserialize)]
pub struct WideCase {
    pub comps: Vec<(DiagSpec, DiagSpec)>,
    pub ins: Vec<u8>,
    pub outs: Vec<u8>,
    pub drop_in: u8,
    pub drop_out: u8,
    /// 0 = the product itself, 1 = plugged into a second product, 2 = its adjoint
    pub mode: u8,
}

fn widen<G: GraphLike>(ds: &[Diag], plans: &[&IdPlan], what: &str) -> Result<G, String> {
    let (mut g, _) = build::<G>(&ds[0], plans[0]);
    for (d, plan) in ds.iter().zip(plans.iter()).skip(1) {
        let (h, _) = build::<G>(d, plan);
        let vmap = guarded(&format!("{what}: append_graph"), || g.append_graph(&h))?;
        let mut ins = g.inputs().clone();
        let mut outs = g.outputs().clone();
        for i in h.inputs() {
            ins.push(*vmap.get(i).ok_or_else(|| format!("{what}: append_graph map lacks input {i}"))?);
        }
        for o in h.outputs() {
            outs.push(*vmap.get(o).ok_or_else(|| format!("{what}: append_graph map lacks output {o}"))?);
        }
        g.set_inputs(ins);
        g.set_outputs(outs);
    }
    Ok(g)
}

/// decode a list of basis codes for `n` wires leaving at most `budget` wires open
fn wide_list(codes: &[u8], n: usize, drop: u8, budget: usize) -> Vec<BasisElem> {
    let drop = (drop as usize).min(budget).min(n);
    let mut open = drop;
    (0..n - drop)
        .map(|i| {
            let b = basis(codes.get(i % codes.len().max(1)).copied().unwrap_or(0).wrapping_add((i / codes.len().max(1)) as u8));
            if b == BasisElem::SKIP {
                if open >= budget {
                    return BasisElem::Z0;
                }
                open += 1;
            }
            b
        })
        .collect()
}

fn check_wide_in<R: Cmp, G: GraphLike>(c: &WideCase, name: &str, obs: &mut Obs) -> Result<(), String> {
    let mode = c.mode % 3;
    let mut dgs = vec![];
    let mut dhs = vec![];
    let mut ts: Vec<Tens<R>> = vec![];
    for (sg, sh) in &c.comps {
        let dg = sg.to_diag();
        let mut dh = sh.to_diag();
        make_composable(&dg, &mut dh);
        let Ok(tg) = eval::<R>(&dg) else {
            obs.skip("oracle");
            return Ok(());
        };
        let t = match mode {
            1 => {
                let Ok(th) = eval::<R>(&dh) else {
                    obs.skip("oracle");
                    return Ok(());
                };
                compose(&tg, &th)
            }
            2 => dagger(&tg),
            _ => tg,
        };
        ts.push(t);
        dgs.push(dg);
        dhs.push(dh);
    }
    if ts.is_empty() {
        return Ok(());
    }
    let pg: Vec<&IdPlan> = c.comps.iter().map(|(g, _)| &g.plan).collect();
    let ph: Vec<&IdPlan> = c.comps.iter().map(|(_, h)| &h.plan).collect();
    let what = format!("{name}: product of {} components, mode {mode}", ts.len());
    let mut p: G = widen(&dgs, &pg, &what)?;
    match mode {
        1 => {
            let h: G = widen(&dhs, &ph, &what)?;
            guarded(&format!("{what}: plug"), || p.plug(&h))?;
        }
        2 => {
            p = guarded(&format!("{what}: to_adjoint"), || p.to_adjoint())?;
        }
        _ => {}
    }
    let ni: usize = ts.iter().map(|t| t.n_in).sum();
    let no: usize = ts.iter().map(|t| t.n_out).sum();
    if p.inputs().len() != ni || p.outputs().len() != no {
        return Err(format!("{what}: {}->{} wires, expected {ni}->{no}", p.inputs().len(), p.outputs().len()));
    }
    obs.class_if(ni.max(no) >= 16, "wires>=16");
    obs.class_if(ni.max(no) >= 33, "wires>=33");
    obs.class_if(ni + no >= 64, "total-wires>=64");
    obs.class_if(p.vertices().max().unwrap_or(0) >= 256, "names>=256");
    obs.nontrivial();
    let lin = wide_list(&c.ins, ni, c.drop_in, 4);
    let lout = wide_list(&c.outs, no, c.drop_out, 4);
    guarded(&format!("{what}: plug_inputs (list of {} for {ni} wires)", lin.len()), || p.plug_inputs(&lin))?;
    guarded(&format!("{what}: plug_outputs (list of {} for {no} wires)", lout.len()), || p.plug_outputs(&lout))?;
    // expected: component by component
    let (mut ai, mut ao) = (0usize, 0usize);
    let mut want: Option<Tens<R>> = None;
    for t in &ts {
        let sub_in: Vec<BasisElem> = (ai..ai + t.n_in).filter_map(|i| lin.get(i).copied()).collect();
        let sub_out: Vec<BasisElem> = (ao..ao + t.n_out).filter_map(|i| lout.get(i).copied()).collect();
        ai += t.n_in;
        ao += t.n_out;
        let q = plug_tensor(&plug_tensor(t, &sub_in, true), &sub_out, false);
        want = Some(match want {
            None => q,
            Some(w) => tensor_product(&w, &q),
        });
    }
    let want = want.unwrap();
    match eval_graph::<R, G>(&p) {
        Ok(Some(got)) => R::same(&want, &got).map_err(|e| format!("{what}: after plugging {lin:?} into the inputs and {lout:?} into the outputs the map is wrong: {e}")),
        Ok(None) => {
            obs.skip("oracle-too-big");
            Ok(())
        }
        Err(e) => Err(format!("{what}: result malformed: {e}")),
    }
}

fn check_wide(c: &WideCase, obs: &mut Obs) -> Result<(), String> {
    let exact = c.comps.iter().all(|(g, h)| {
        let (dg, dh) = (g.to_diag(), h.to_diag());
        dg.all_phases_quarter() && dh.all_phases_quarter() && dg.scalar.is_exact() && dh.scalar.is_exact()
    });
    if exact {
        check_wide_in::<Zw, quizx::vec_graph::Graph>(c, "vec", obs)?;
        check_wide_in::<Zw, quizx::hash_graph::Graph>(c, "hash", obs)?;
    } else {
        check_wide_in::<C64, quizx::vec_graph::Graph>(c, "vec", obs)?;
    }
    obs.classes.sort();
    obs.classes.dedup();
    Ok(())
}

// ------------------------------------------------------------------------------------------
// is_identity

#[derive(Clone, Debug, Serialize, Deserialize)]
pub struct IdCase {
    pub n: usize,
    /// wire i goes from input i to output perm-key-sorted position
    pub perm_keys: Vec<u16>,
    pub hadamard: Vec<bool>,
    /// 0 nothing, 1 extra isolated spider, 2 spider on a wire, 3 missing wire (extra input+output
    /// unconnected pair joined elsewhere), 4 unequal arities (extra output cup)
    pub defect: u8,
    pub order: Vec<u16>,
    pub shuffle_lists: bool,
    /// wire the defect / far Hadamard / far transposition sits on (many-wire cases)
    #[serde(default)]
    pub pos: u16,
    /// 0 nothing, 1 Hadamard on wire `pos`, 2 wires `pos` and `pos+1` transposed
    #[serde(default)]
    pub far: u8,
}

fn check_identity_in<G: GraphLike>(c: &IdCase, name: &str, obs: &mut Obs) -> Result<(), String> {
    let n = c.n.min(80);
    let pos = if n == 0 { 0 } else { crate::gen::idx(c.pos, n) };
    let mut g = G::new();
    // create the 2n boundary vertices in a scrambled order
    let mut slots: Vec<usize> = (0..2 * n).collect();
    slots.sort_by_key(|&i| (c.order.get(i).copied().unwrap_or(0), i));
    let mut ids = vec![0usize; 2 * n];
    for &s in &slots {
        ids[s] = g.add_vertex(VType::B);
    }
    let ins: Vec<V> = (0..n).map(|i| ids[i]).collect();
    let outs: Vec<V> = (0..n).map(|i| ids[n + i]).collect();
    // permutation
    let mut perm: Vec<usize> = (0..n).collect();
    perm.sort_by_key(|&i| (c.perm_keys.get(i).copied().unwrap_or(0), i));
    if c.far == 2 && pos + 1 < n {
        perm.swap(pos, pos + 1);
    }
    let is_id_perm = perm.iter().enumerate().all(|(i, &p)| i == p);
    let mut any_h = false;
    let mut spider_on_wire = false;
    for i in 0..n {
        let h = c.hadamard.get(i).copied().unwrap_or(false) || (c.far == 1 && i == pos);
        any_h |= h;
        if c.defect == 2 && i == pos {
            let s = g.add_vertex(VType::Z);
            g.add_edge_with_type(ins[i], s, EType::N);
            g.add_edge_with_type(s, outs[perm[i]], if h { EType::H } else { EType::N });
            spider_on_wire = true;
        } else {
            g.add_edge_with_type(ins[i], outs[perm[i]], if h { EType::H } else { EType::N });
        }
    }
    let mut ins2 = ins.clone();
    let mut outs2 = outs.clone();
    let mut extra = false;
    match c.defect {
        1 => {
            g.add_vertex(VType::Z);
            extra = true;
        }
        3 => {
            // an extra input and an extra output, each wired to a fresh cup/cap partner instead of
            // to each other
            let a = g.add_vertex(VType::B);
            let a2 = g.add_vertex(VType::B);
            let b = g.add_vertex(VType::B);
            let b2 = g.add_vertex(VType::B);
            g.add_edge(a, a2);
            g.add_edge(b, b2);
            ins2.push(a);
            ins2.push(a2);
            outs2.push(b);
            outs2.push(b2);
            extra = true;
        }
        4 => {
            let b = g.add_vertex(VType::B);
            let b2 = g.add_vertex(VType::B);
            g.add_edge(b, b2);
            outs2.push(b);
            outs2.push(b2);
            extra = true;
        }
        5 | 6 => {
            // closed junk next to the wires: a pair of joined spiders, or 1-4 spiders with
            // generated kinds, phases and edges (any such component makes it "something else")
            let k = if c.defect == 5 { 2 } else { 1 + (c.pos as usize % 4) };
            let vs: Vec<V> = (0..k)
                .map(|j| {
                    let ty = if (c.pos >> (j + 2)) & 1 == 1 { VType::X } else { VType::Z };
                    let v = g.add_vertex(ty);
                    g.set_phase(v, quizx::phase::Phase::new(num::Rational64::new(((c.pos >> j) & 3) as i64, 2)));
                    v
                })
                .collect();
            for a in 0..k {
                for b in (a + 1)..k {
                    if c.defect == 5 || (c.pos >> (a * 3 + b)) & 1 == 1 {
                        g.add_edge_with_type(vs[a], vs[b], if (c.pos >> (a + b)) & 1 == 1 { EType::H } else { EType::N });
                    }
                }
            }
            extra = true;
        }
        _ => {}
    }
    g.set_inputs(ins2);
    g.set_outputs(outs2);
    let truth = is_id_perm && !any_h && !spider_on_wire && !extra;
    obs.class_if(truth, "true-identity");
    obs.class_if(n >= 33, "wires>=33");
    obs.class_if(n >= 65, "wires>=65");
    obs.class_if(!truth && any_h && is_id_perm && !extra && !spider_on_wire, "hadamard-wire");
    obs.class_if(!is_id_perm, "permutation");
    obs.class_if(extra || spider_on_wire, "structural-defect");
    if !truth {
        obs.nontrivial();
    }
    let got = guarded(&format!("{name}: is_identity"), || g.is_identity())?;
    if got != truth {
        if got && !truth && any_h && is_id_perm && !extra && !spider_on_wire {
            return obs.known(
                "is-identity-ignores-edge-type",
                format!("{name}: is_identity answers true for a diagram with Hadamard wires (n={n}, hadamard={:?})", c.hadamard),
            );
        }
        return Err(format!(
            "{name}: is_identity returned {got} but the diagram {} the identity (n={n}, perm={perm:?}, hadamard={:?}, defect={})",
            if truth { "is" } else { "is not" },
            c.hadamard,
            c.defect
        ));
    }
    Ok(())
}

fn check_identity(c: &IdCase, obs: &mut Obs) -> Result<(), String> {
    check_identity_in::<quizx::vec_graph::Graph>(c, "vec", obs)?;
    check_identity_in::<quizx::hash_graph::Graph>(c, "hash", obs)?;
    obs.classes.sort();
    obs.classes.dedup();
    Ok(())
}

pub fn def(ctx: &Ctx) -> PropertyDef {
    let t = ctx.tier;
    let ms = t.pick(5, 7);
    let dp = move |pal: Palette| {
        let mut p = DiagParams::general(ms, 3, pal);
        p.max_wires = 2;
        p
    };
    let sections = vec![
        Section::random(
            "pairs-exact",
            ctx.cases(2500, 50000),
            move || {
                (diag_spec(dp(Palette::ExactT)), diag_spec(dp(Palette::ExactT)))
                    .prop_map(|(g, h)| PairCase { g, h })
            },
            check_pair,
        ),
        Section::random(
            "pairs-general",
            ctx.cases(1000, 20000),
            move || {
                (diag_spec(dp(Palette::General)), diag_spec(dp(Palette::General)))
                    .prop_map(|(g, h)| PairCase { g, h })
            },
            check_pair,
        ),
        Section::random(
            "pairs-parametrised",
            ctx.cases(600, 12000),
            move || {
                let mut p = dp(Palette::ExactT);
                p.max_vars = 4;
                p.var_prob = 40;
                (diag_spec(p.clone()), diag_spec(p)).prop_map(|(g, h)| PairCase { g, h })
            },
            check_pair,
        ),
        Section::random(
            "pairs-hubs",
            ctx.cases(1200, 24000),
            move || {
                let small = || {
                    let mut p = DiagParams::general(3, 2, Palette::ExactT);
                    p.max_wires = 1;
                    diag_spec(p)
                };
                let leaves = || prop_oneof![2 => 0u8..=4, 3 => 5u8..=12, 1 => 13u8..=20];
                (small(), small(), (any::<u16>(), leaves()), (any::<u16>(), leaves()), 0u8..3, any::<u16>()).prop_map(
                    |(g, h, g_hub, h_hub, m, bits)| HubCase {
                        pair: PairCase { g, h },
                        g_hub,
                        h_hub,
                        m,
                        bits,
                    },
                )
            },
            check_hub,
        ),
        Section::random(
            "basis-plugging",
            ctx.cases(3000, 60000),
            move || {
                (
                    diag_spec({
                        let mut p = dp(Palette::ExactT);
                        p.max_bnds = 4;
                        p
                    }),
                    prop::collection::vec(0u8..5, 0..=6),
                    prop::collection::vec(0u8..5, 0..=6),
                    (any::<u16>(), 0u8..5, any::<bool>()),
                )
                    .prop_map(|(g, ins, outs, single)| PlugCase {
                        g,
                        ins,
                        outs,
                        single,
                    })
            },
            check_plug,
        ),
        Section::random(
            "wide-products",
            ctx.cases(300, 6000),
            move || {
                let small = || {
                    let mut p = DiagParams::general(3, 3, Palette::ExactT);
                    p.max_wires = 1;
                    diag_spec(p)
                };
                (
                    prop::collection::vec((small(), small()), 2..=32),
                    prop::collection::vec(prop_oneof![8 => 0u8..4, 1 => Just(4u8)], 1..=12),
                    prop::collection::vec(prop_oneof![8 => 0u8..4, 1 => Just(4u8)], 1..=12),
                    0u8..4,
                    0u8..4,
                    0u8..3,
                )
                    .prop_map(|(comps, ins, outs, drop_in, drop_out, mode)| WideCase {
                        comps,
                        ins,
                        outs,
                        drop_in,
                        drop_out,
                        mode,
                    })
            },
            check_wide,
        ),
        Section::random(
            "is-identity",
            ctx.cases(4000, 80000),
            || {
                (
                    prop_oneof![6 => 0usize..=4, 2 => 5usize..=40, 1 => 60usize..=72],
                    prop_oneof![
                        2 => Just(vec![]),
                        1 => prop::collection::vec(any::<u16>(), 0..=4)
                    ],
                    prop_oneof![
                        2 => Just(vec![]),
                        1 => prop::collection::vec(any::<bool>(), 0..=4)
                    ],
                    prop_oneof![5 => Just(0u8), 1 => Just(1u8), 1 => Just(2u8), 1 => Just(3u8), 1 => Just(4u8), 1 => Just(5u8), 1 => Just(6u8)],
                    prop::collection::vec(any::<u16>(), 0..=8),
                    any::<bool>(),
                    any::<u16>(),
                    prop_oneof![4 => Just(0u8), 1 => Just(1u8), 1 => Just(2u8)],
                )
                    .prop_map(
                        |(n, perm_keys, hadamard, defect, order, shuffle_lists, pos, far)| IdCase {
                            n,
                            perm_keys,
                            hadamard,
                            defect,
                            order,
                            shuffle_lists,
                            pos,
                            far,
                        },
                    )
            },
            check_identity,
        ),
    ];
    PropertyDef {
        id: "C11",
        rule: "pairs of random diagrams made composable (boundary Hadamard edges, boundary-boundary wires, caps and cups included): plug = composition, append_graph = tensor product, adjoint = conjugate transpose and involution, x_to_z keeps the map (contractions done in the harness); basis plugging with lists over {Z0,Z1,X0,X1,SKIP} of every length 0..n and single plug_input/plug_output vs contraction with the normalised vectors; is_identity on wire diagrams (true identities with arbitrary ids, and near misses: Hadamard wire, permutation, extra spider, spider on a wire, extra cups, unequal arities) vs the structural predicate. Non-trivial = seam with a Hadamard edge or boundary-boundary wire; list shorter than n or containing SKIP; near-miss identity. Distinct by hash of the case.",
        assumptions: vec!["harness evaluator and its own tensor contractions (see selftest)"],
        sections,
    }
}
