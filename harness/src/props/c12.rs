//! C12 — the equality checkers never give a wrong definite answer.

use super::common::*;
use crate::engine::{Ctx, Obs, PropertyDef, Section};
use crate::gen::circ::{circ_spec, unitary_kinds, CircParams, CircSpec, GateSpec};
use crate::gen::diag::Palette;
use crate::gen::idx;
use crate::oracle::csim::{self, Circ, MGate, GK};
use crate::oracle::ring::{proportional_close, proportional_exact, tensors_close, Ring, Zw, C64};
use proptest::prelude::*;
use quizx::equality as eq;
use quizx::extract::ToCircuit;
use quizx::vec_graph::Graph;
use serde::{Deserialize, Serialize};

#[derive(Clone, Debug, Serialize, Deserialize)]
pub struct Case {
    pub a: CircSpec,
    /// how b is derived from a
    pub relation: u8,
    pub pos: u16,
    pub extra: GateSpec,
    pub b: CircSpec,
    /// simplifier applied to the graphs before the graph-level check: 0 none 1 clifford 2 full 3 flow
    pub gsimp: u8,
    /// 0 unitary pair; 1 the same qubits of both circuits start as |0> ancillas (isometries);
    /// 2 the same qubits of both are post-selected at the end (co-isometries); 3 both
    #[serde(default)]
    pub nonsquare: u8,
}

fn adjoint_gate(g: &MGate) -> MGate {
    let mut h = g.clone();
    match g.k {
        GK::Rz | GK::Rx | GK::Pp => h.phase = crate::oracle::diag::norm_phase((-g.phase.0, g.phase.1)),
        GK::S => h.k = GK::Sdg,
        GK::Sdg => h.k = GK::S,
        GK::T => h.k = GK::Tdg,
        GK::Tdg => h.k = GK::T,
        _ => {}
    }
    h
}

fn derive(c: &Case) -> (Circ, Circ, &'static str) {
    let a = c.a.to_circ();
    let extra = {
        let one = CircSpec {
            n: a.n,
            gates: vec![c.extra.clone()],
        }
        .to_circ();
        one.gates.first().cloned()
    };
    let at = |len: usize| idx(c.pos, len + 1);
    match c.relation % 13 {
        0 => {
            let mut bs = c.b.clone();
            bs.n = a.n;
            (a, bs.to_circ(), "independent")
        }
        1 => (a.clone(), a, "identical"),
        2 => {
            // re-extraction through quizx (its correctness is C03's business; truth comes from csim)
            let qc = a.to_quizx();
            let mut g: Graph = qc.to_graph();
            quizx::simplify::full_simp(&mut g);
            match g.to_circuit() {
                Ok(e) => match Circ::from_quizx(&e) {
                    Some(b) => (a, b, "re-extraction"),
                    None => (a.clone(), a, "identical"),
                },
                Err(_) => (a.clone(), a, "identical"),
            }
        }
        3 => {
            let mut b = a.clone();
            if let Some(g) = extra {
                let p = at(b.gates.len());
                b.gates.insert(p, adjoint_gate(&g));
                b.gates.insert(p, g);
            }
            (a, b, "inserted-cancelling-pair")
        }
        4 => {
            let mut b = a.clone();
            if b.gates.len() >= 2 {
                let p = idx(c.pos, b.gates.len() - 1);
                let disjoint = b.gates[p].qs.iter().all(|q| !b.gates[p + 1].qs.contains(q));
                if disjoint {
                    b.gates.swap(p, p + 1);
                }
            }
            (a, b, "commuted-disjoint-gates")
        }
        5 => {
            let qb = a.to_quizx().to_basic_gates();
            match Circ::from_quizx(&qb) {
                Some(b) => (a, b, "basic-gate-expansion"),
                None => (a.clone(), a, "identical"),
            }
        }
        6 => {
            let mut b = a.clone();
            if let Some(g) = extra {
                let p = at(b.gates.len());
                b.gates.insert(p, g);
            }
            (a, b, "one-extra-gate")
        }
        7 => {
            let mut b = a.clone();
            if !b.gates.is_empty() {
                let p = idx(c.pos, b.gates.len());
                b.gates.remove(p);
            }
            (a, b, "one-gate-removed")
        }
        8 => {
            // global phase -1: X Z X Z on qubit 0
            let mut b = a.clone();
            let p = at(b.gates.len());
            let q = idx(c.pos.wrapping_mul(31), a.n);
            for k in [GK::Z, GK::X, GK::Z, GK::X] {
                b.gates.insert(p, MGate::new(k, vec![q]));
            }
            (a, b, "global-phase-minus-one")
        }
        12 => {
            // a global phase far below any natural phase but far above rounding: e^{i pi/2^k},
            // k = 17..26 (4.7e-8 .. 2.4e-5 rad), as Rz X Rz X on one qubit
            let mut b = a.clone();
            let p = at(b.gates.len());
            let q = idx(c.pos.wrapping_mul(31), a.n);
            let k = 17 + (c.pos as i64 % 10);
            for g in [
                MGate::new(GK::X, vec![q]),
                MGate::ph(GK::Rz, vec![q], (1, 1i64 << k)),
                MGate::new(GK::X, vec![q]),
                MGate::ph(GK::Rz, vec![q], (1, 1i64 << k)),
            ] {
                b.gates.insert(p, g);
            }
            (a, b, "tiny-global-phase")
        }
        9 => {
            // Hadamard on a wire at the end
            let mut b = a.clone();
            let q = idx(c.pos, a.n);
            b.gates.push(MGate::new(GK::H, vec![q]));
            (a, b, "hadamard-on-wire")
        }
        10 => {
            let mut b = a.clone();
            if a.n >= 2 {
                let q0 = idx(c.pos, a.n);
                let q1 = (q0 + 1) % a.n;
                if c.pos % 2 == 0 {
                    b.gates.push(MGate::new(GK::Swap, vec![q0, q1]));
                } else {
                    for (x, y) in [(q0, q1), (q1, q0), (q0, q1)] {
                        b.gates.push(MGate::new(GK::Cx, vec![x, y]));
                    }
                }
            }
            (a, b, "wire-permutation")
        }
        _ => {
            let mut b = a.clone();
            b.n += 1;
            (a, b, "different-arity")
        }
    }
}

struct TruthPair {
    same_arity: bool,
    equal: bool,
    projective: bool,
    /// float only: too close to the tolerance to call
    borderline: bool,
    /// the pair is outside the domain in which 'equal' is claimed to be sound
    skip_true: bool,
}

fn truth(a: &Circ, b: &Circ) -> TruthPair {
    if a.n != b.n {
        return TruthPair {
            same_arity: false,
            equal: false,
            projective: false,
            borderline: false,
            skip_true: false,
        };
    }
    if a.all_phases_quarter() && b.all_phases_quarter() {
        let ta = csim::simulate::<Zw>(a).expect("sim").data;
        let tb = csim::simulate::<Zw>(b).expect("sim").data;
        TruthPair {
            same_arity: true,
            equal: ta == tb,
            projective: proportional_exact(&ta, &tb),
            borderline: false,
            skip_true: false,
        }
    } else {
        let ta = csim::simulate::<C64>(a).expect("sim").data;
        let tb = csim::simulate::<C64>(b).expect("sim").data;
        let eq_tight = tensors_close(&ta, &tb, 1e-10, 1e-10).is_ok();
        let eq_loose = tensors_close(&ta, &tb, 3e-8, 3e-8).is_ok();
        let pr_tight = proportional_close(&ta, &tb, 1e-10);
        let pr_loose = proportional_close(&ta, &tb, 3e-8);
        TruthPair {
            same_arity: true,
            equal: eq_tight,
            projective: pr_tight,
            borderline: eq_tight != eq_loose || pr_tight != pr_loose,
            skip_true: false,
        }
    }
}

fn judge(
    name: &str,
    ans: Option<bool>,
    up_to_phase: bool,
    t: &TruthPair,
    obs: &mut Obs,
) -> Result<(), String> {
    match ans {
        None => {
            obs.class("answer:unknown");
            Ok(())
        }
        Some(true) => {
            obs.class("answer:equal");
            if t.skip_true {
                // not unitary: A^dagger B proportional to the identity does not imply A = B (the
                // scalar may be smaller than 1), and the property claims 'equal' for unitaries only
                return Ok(());
            }
            let ok = if up_to_phase { t.projective } else { t.equal };
            if ok {
                Ok(())
            } else {
                Err(format!(
                    "{name}(up_to_global_phase={up_to_phase}) answered Some(true) but the maps are {} (equal={}, equal-up-to-phase={})",
                    if up_to_phase { "not equal up to a global phase" } else { "not equal" },
                    t.equal,
                    t.projective
                ))
            }
        }
        Some(false) => {
            obs.class("answer:not-equal");
            if !t.same_arity {
                return Ok(());
            }
            // 'not equal' must mean they differ (exactly; with phase allowed the documented
            // meaning of Some(false) in exact mode is 'unequal or only equal up to phase')
            let really_equal = if up_to_phase { t.projective } else { t.equal };
            if really_equal {
                Err(format!(
                    "{name}(up_to_global_phase={up_to_phase}) answered Some(false) but the maps are equal{}",
                    if up_to_phase { " up to a global phase" } else { "" }
                ))
            } else {
                Ok(())
            }
        }
    }
}

fn check(c: &Case, obs: &mut Obs) -> Result<(), String> {
    let (mut a, mut b, rel) = derive(c);
    // circuit-derived diagrams with different numbers of inputs and outputs: the same ancillas /
    // post-selections on both sides
    let mode = c.nonsquare % 4;
    if mode != 0 {
        let n = a.n.min(b.n);
        let pick = |salt: u16| -> Vec<usize> {
            let mut qs: Vec<usize> = (0..n).filter(|&q| (c.pos.rotate_left(salt as u32) >> (q % 16)) & 1 == 1).collect();
            if qs.is_empty() {
                qs.push(c.pos as usize % n);
            }
            qs
        };
        for m in [&mut a, &mut b] {
            if mode & 1 == 1 {
                for (i, &q) in pick(3).iter().enumerate() {
                    m.gates.insert(i, MGate::new(GK::InitAnc, vec![q]));
                }
            }
            if mode & 2 == 2 {
                for &q in pick(7).iter() {
                    m.gates.push(MGate::new(GK::PostSel, vec![q]));
                }
            }
        }
        obs.class(match mode {
            1 => "nonsquare:ancillas",
            2 => "nonsquare:post-selected",
            _ => "nonsquare:both",
        });
    }
    obs.class(match rel {
        "independent" => "rel:independent",
        "identical" => "rel:identical",
        "re-extraction" => "rel:re-extraction",
        "inserted-cancelling-pair" => "rel:inserted-cancelling-pair",
        "commuted-disjoint-gates" => "rel:commuted-disjoint-gates",
        "basic-gate-expansion" => "rel:basic-gate-expansion",
        "one-extra-gate" => "rel:one-extra-gate",
        "one-gate-removed" => "rel:one-gate-removed",
        "global-phase-minus-one" => "rel:global-phase",
        "tiny-global-phase" => "rel:tiny-global-phase",
        "hadamard-on-wire" => "rel:hadamard-on-wire",
        "wire-permutation" => "rel:wire-permutation",
        _ => "rel:different-arity",
    });
    let mut t = truth(&a, &b);
    t.skip_true = mode != 0;
    if t.borderline {
        obs.skip("float-borderline");
        return Ok(());
    }
    obs.class_if(t.equal, "truth:equal");
    obs.class_if(t.projective && !t.equal, "truth:equal-up-to-phase-only");
    obs.class_if(!t.projective, "truth:different");
    let (qa, qb) = (a.to_quizx(), b.to_quizx());
    let syntactically_identical = a == b;
    let mut definite = false;
    for up in [true, false] {
        let ans = guarded("equal_circuit_with_options", || {
            eq::equal_circuit_with_options(&qa, &qb, up)
        })?;
        definite |= ans.is_some();
        judge("equal_circuit_with_options", ans, up, &t, obs)?;
    }
    // graph level, optionally pre-simplified
    let mut ga: Graph = qa.to_graph();
    let mut gb: Graph = qb.to_graph();
    match c.gsimp % 4 {
        1 => {
            quizx::simplify::clifford_simp(&mut ga);
            quizx::simplify::clifford_simp(&mut gb);
        }
        2 => {
            quizx::simplify::full_simp(&mut ga);
        }
        3 => {
            quizx::simplify::flow_simp(&mut gb);
        }
        _ => {}
    }
    for up in [true, false] {
        let ans = guarded("equal_graph_with_options", || {
            eq::equal_graph_with_options(&ga, &gb, up)
        })?;
        definite |= ans.is_some();
        judge("equal_graph_with_options", ans, up, &t, obs)?;
    }
    // the shorthands (documented as the up-to-global-phase question) and the arity tests
    let ans = guarded("equal_circuit", || eq::equal_circuit(&qa, &qb))?;
    judge("equal_circuit", ans, true, &t, obs)?;
    let ans = guarded("equal_graph", || eq::equal_graph(&ga, &gb))?;
    judge("equal_graph", ans, true, &t, obs)?;
    let d1 = guarded("equal_circuit_dim", || eq::equal_circuit_dim(&qa, &qb))?;
    let d2 = guarded("equal_graph_dim", || eq::equal_graph_dim(&ga, &gb))?;
    if d1 != t.same_arity || d2 != t.same_arity {
        return Err(format!(
            "equal_circuit_dim = {d1}, equal_graph_dim = {d2}, but the qubit counts are {} and {}",
            a.n, b.n
        ));
    }
    if definite && !syntactically_identical {
        obs.nontrivial();
    }
    // tensor-based checks: exact only, small sizes
    // quizx's own tensor contraction is exponential in the size of the translated diagram: keep
    // the tensor-based checks to small diagrams (a CCZ/Toffoli alone expands to ~25 spiders)
    let small = |c: &Circ| {
        c.n <= 3
            && c.gates.len() <= 14
            && !c.gates.iter().any(|g| matches!(g.k, GK::Ccx | GK::Ccz) || g.qs.len() > 2)
    };
    if a.all_phases_quarter() && b.all_phases_quarter() && small(&a) && small(&b) {
        let r = guarded("equal_circuit_tensor", || eq::equal_circuit_tensor(&qa, &qb))?;
        if r != t.equal {
            return Err(format!(
                "equal_circuit_tensor returned {r}, identical tensors is {}",
                t.equal
            ));
        }
        let r = guarded("equal_graph_tensor", || eq::equal_graph_tensor(&ga, &gb))?;
        if r != t.equal {
            return Err(format!(
                "equal_graph_tensor returned {r}, identical tensors is {}",
                t.equal
            ));
        }
    }
    obs.classes.sort();
    obs.classes.dedup();
    Ok(())
}

pub fn def(ctx: &Ctx) -> PropertyDef {
    let t = ctx.tier;
    let mk = move |pal: Palette| {
        move || {
            let p = CircParams {
                min_q: 1,
                max_q: t.pick(4, 5),
                max_gates: t.pick(12, 20),
                kinds: unitary_kinds(),
                palette: pal,
                max_var: 0,
            };
            (
                circ_spec(p.clone()),
                0u8..13,
                any::<u16>(),
                crate::gen::circ::gate_spec(unitary_kinds(), pal, 0),
                circ_spec(CircParams {
                    max_gates: 4,
                    ..p.clone()
                }),
                0u8..4,
                prop_oneof![5 => Just(0u8), 1 => Just(1u8), 1 => Just(2u8), 1 => Just(3u8)],
            )
                .prop_map(|(a, relation, pos, extra, b, gsimp, nonsquare)| Case {
                    a,
                    relation,
                    pos,
                    extra,
                    b,
                    gsimp,
                    nonsquare,
                })
        }
    };
    PropertyDef {
        id: "C12",
        rule: "pairs of unitary circuits, and the same pairs with identical |0> ancillas and/or <0| post-selections on both sides (non-unitary, so only 'not equal', the tensor checks and the arity tests are judged for them - the cancel-out method is claimed sound for unitaries only): independent; equal by construction (copy, re-extraction, inserted cancelling pair, commuted disjoint gates, basic-gate expansion, swap as three CNOTs); differing by one gate, by a global phase -1 (XZXZ), by a global phase e^{i pi/2^k} with k = 17..26 (4.7e-8 .. 2.4e-5 rad; float truth is definite for differences above 3e-8 and below 1e-10, in between the pair is skipped as borderline), by a Hadamard on a wire, by a wire permutation, by arity. Truth from the harness simulator (exact equality and equality up to a scalar). equal_circuit_with_options / equal_graph_with_options (graphs optionally pre-simplified) with and without global phase, the shorthands equal_circuit / equal_graph (= up to global phase) and equal_*_dim: Some(true) => truth, Some(false) => not equal (or arities differ), None always allowed and counted; equal_circuit_tensor / equal_graph_tensor <=> identical tensors (exact phases). Non-trivial = a definite answer on a pair that is not syntactically identical. Distinct by hash of the case.",
        assumptions: vec![
            "harness simulator (see selftest)",
            "float pairs whose equality flips between tolerance 1e-10 and 1e-5 are skipped as borderline",
        ],
        sections: vec![
            Section::random("exact", ctx.cases(2500, 60000), mk(Palette::ExactT), check),
            Section::random("general", ctx.cases(1000, 25000), mk(Palette::General), check),
        ],
    }
}
