//! C14 — QASM printing and parsing round-trip circuits; the parser accepts the documented phase
//! spellings and register layouts and reports unsupported constructs as errors.

use super::common::*;
use crate::engine::{Ctx, Obs, PropertyDef, Section};
use crate::gen::circ::{circ_spec, CircParams, CircSpec};
use crate::gen::diag::Palette;
use crate::gen::idx;
use crate::oracle::csim::{Circ, MGate, GK};
use crate::oracle::diag::norm_phase;
use proptest::prelude::*;
use quizx::circuit::Circuit;
use serde::{Deserialize, Serialize};

pub fn qasm_kinds() -> Vec<(u32, GK)> {
    vec![
        (3, GK::Rz),
        (2, GK::Rx),
        (1, GK::X),
        (1, GK::Z),
        (1, GK::S),
        (2, GK::T),
        (1, GK::Sdg),
        (1, GK::Tdg),
        (2, GK::H),
        (2, GK::Cx),
        (2, GK::Cz),
        (1, GK::Ccx),
        (1, GK::Ccz),
        (1, GK::Swap),
        (1, GK::Xcx),
        (1, GK::InitAnc),
        (1, GK::PostSel),
    ]
}

fn describe(c: &Circ) -> String {
    format!(
        "{} qubits: {}",
        c.n,
        c.gates
            .iter()
            .map(|g| format!("{:?}{:?}@{}/{}", g.k, g.qs, g.phase.0, g.phase.1))
            .collect::<Vec<_>>()
            .join(" ")
    )
}

/// structural comparison; phases of gates without a phase parameter are ignored
fn same_circuit(want: &Circ, got: &Circuit, phase_tol: Option<f64>) -> Result<(), String> {
    let Some(g) = Circ::from_quizx(got) else {
        return Err("parsed circuit contains an unknown gate".into());
    };
    if g.n != want.n {
        return Err(format!("qubit count {} instead of {}", g.n, want.n));
    }
    if g.gates.len() != want.gates.len() {
        return Err(format!(
            "{} gates instead of {}: got [{}], expected [{}]",
            g.gates.len(),
            want.gates.len(),
            describe(&g),
            describe(want)
        ));
    }
    for (i, (a, b)) in want.gates.iter().zip(g.gates.iter()).enumerate() {
        if a.k != b.k || a.qs != b.qs {
            return Err(format!(
                "gate {i}: expected {:?} on {:?}, got {:?} on {:?}",
                a.k, a.qs, b.k, b.qs
            ));
        }
        if a.k.has_phase() {
            match phase_tol {
                None => {
                    if norm_phase(a.phase) != norm_phase(b.phase) {
                        return Err(format!(
                            "gate {i} ({:?}): phase {}/{} came back as {}/{}",
                            a.k, a.phase.0, a.phase.1, b.phase.0, b.phase.1
                        ));
                    }
                }
                Some(tol) => {
                    let x = a.phase.0 as f64 / a.phase.1 as f64;
                    let y = b.phase.0 as f64 / b.phase.1 as f64;
                    let d = (x - y).rem_euclid(2.0);
                    if d.min(2.0 - d) > tol {
                        return Err(format!(
                            "gate {i} ({:?}): phase {x} came back as {y}",
                            a.k
                        ));
                    }
                }
            }
        }
    }
    Ok(())
}

// ------------------------------------------------------------------------------------------
// (a) print -> parse

#[derive(Clone, Debug, Serialize, Deserialize)]
pub struct RtCase {
    pub circ: CircSpec,
}

fn check_roundtrip(c: &RtCase, obs: &mut Obs) -> Result<(), String> {
    let m = c.circ.to_circ();
    let q = m.to_quizx();
    let text = guarded("to_qasm", || q.to_qasm())?;
    let maxd = m
        .gates
        .iter()
        .filter(|g| g.k.has_phase())
        .map(|g| g.phase.1)
        .max()
        .unwrap_or(1);
    obs.class_if(m.gates.is_empty(), "zero-gates");
    obs.class_if(maxd > 16, "denominator>16");
    let three = m.gates.iter().any(|g| g.qs.len() == 3);
    if m.gates.iter().any(|g| g.k.has_phase() && g.phase.1 >= 3) && three {
        obs.nontrivial();
    }
    let parsed = guarded("from_qasm", || Circuit::from_qasm(&text))?;
    let parsed = match parsed {
        Ok(p) => p,
        Err(e) => return Err(format!("printed QASM does not parse: {e}; text: {}", text.replace('\n', " "))),
    };
    // other public routes to the same objects: the by-name builders, Display, and parsing a file
    {
        let mut by_name = Circuit::new(m.n);
        for (i, g) in m.gates.iter().enumerate() {
            let name = g.k.gtype().qasm_name();
            let ph = crate::oracle::diag::to_qphase(g.phase);
            if g.k.has_phase() || i % 2 == 1 {
                by_name.add_gate_with_phase(name, g.qs.clone(), ph);
            } else {
                by_name.add_gate(name, g.qs.clone());
            }
        }
        if by_name != m.to_quizx_layout(0) {
            return Err("a circuit built with add_gate / add_gate_with_phase by QASM name differs from the one built from Gate values".into());
        }
        // to_qasm is documented as the two header lines followed by Display
        if by_name.to_qasm() != text || !text.ends_with(&format!("{q}")) || !text.starts_with("OPENQASM 2.0;") {
            return Err("to_qasm() of the same gate list differs between construction routes, or is not header + Display".into());
        }
        for g in q.gates.iter() {
            if quizx::gate::GType::from_qasm_name(g.qasm_name()) != g.t {
                return Err(format!("GType::from_qasm_name(qasm_name()) != type for {:?}", g.t));
            }
        }
        if (m.gates.len() + m.n) % 8 == 0 {
            let path = super::c03::tmp_path("c14");
            std::fs::write(&path, &text).map_err(|e| format!("harness: {e}"))?;
            let r = guarded("from_file", || Circuit::from_file(&path.to_string_lossy()));
            let _ = std::fs::remove_file(&path);
            match r? {
                Ok(f) if f == parsed => obs.class("route:file"),
                Ok(_) => return Err("Circuit::from_file and Circuit::from_qasm parse the same text differently".into()),
                Err(e) => return Err(format!("Circuit::from_file fails on a text from_qasm accepts: {e}")),
            }
        }
    }
    // printing what was parsed gives the same text again (a second round trip starts from it)
    if maxd <= 16 && parsed.to_qasm() != text {
        return Err(format!("to_qasm(from_qasm(text)) differs from the text it was parsed from: {}", text.replace('\n', " ")));
    }
    if m.gates.is_empty() && parsed.num_qubits() != m.n {
        return obs.known(
            "qasm-zero-gates-loses-qubits",
            format!(
                "a circuit with zero gates on {} qubits parses back with {} qubits",
                m.n,
                parsed.num_qubits()
            ),
        );
    }
    if maxd <= 16 {
        same_circuit(&m, &parsed, None)
            .map_err(|e| format!("from_qasm(to_qasm(c)) != c: {e}; text: {}", text.replace('\n', " ")))?;
        if parsed != q {
            // vars / phases of parameterless gates
            let again = Circ::from_quizx(&parsed);
            if again.as_ref() != Some(&m) {
                return Err("from_qasm(to_qasm(c)) differs from c in a field other than kind/qubits/phase".into());
            }
        }
    } else {
        // reported only: structure must still agree, phases to float precision of the printer
        same_circuit(&m, &parsed, Some(1e-9))
            .map_err(|e| format!("from_qasm(to_qasm(c)) differs beyond rounding: {e}"))?;
    }
    Ok(())
}

// ------------------------------------------------------------------------------------------
// (b) grammar-generated texts

#[derive(Clone, Debug, Serialize, Deserialize)]
pub enum ArgSpec {
    Bit(u16, u16),
    Reg(u16),
}

#[derive(Clone, Debug, Serialize, Deserialize)]
pub enum Unsupported {
    Barrier,
    Reset,
    Conditional,
    UGate,
    UndefinedGate(u8),
    Syntax(u8),
}

#[derive(Clone, Debug, Serialize, Deserialize)]
pub enum StmtSpec {
    Gate {
        k: GK,
        args: Vec<ArgSpec>,
        phase: (i64, i64),
        spelling: u8,
    },
    UserGate {
        args: Vec<ArgSpec>,
        phase: (i64, i64),
        spelling: u8,
    },
    BuiltinCx(Vec<ArgSpec>),
    Measure(u16, u16),
    Comment,
    Bad(Unsupported),
}

#[derive(Clone, Debug, Serialize, Deserialize)]
pub struct TextCase {
    pub regs: Vec<u8>,
    pub creg: u8,
    pub include: bool,
    pub define_user_gate: bool,
    pub stmts: Vec<StmtSpec>,
}

const REG_NAMES: [&str; 4] = ["q", "r", "anc", "w2"];

/// (text, exact expected phase or approximate)
fn spell(phase: (i64, i64), spelling: u8) -> (String, (i64, i64), bool) {
    let (k, d) = norm_phase(phase);
    let exact_decimal = [1i64, 2, 4, 5, 8, 10, 16].contains(&d);
    // expressions mixing a radian constant with a multiple of pi (sums, differences, unary minus,
    // parentheses, integer factors): the expected value is computed here in f64
    let xs = [0.5f64, 0.25, 1.2, 0.1, 2.0, 0.375, 3.0, 0.7];
    let x = xs[((k.unsigned_abs() as usize) * 3 + d as usize) % xs.len()];
    let approx_of = |v: f64| norm_phase(((v * 1e7).round() as i64, 10_000_000));
    let kd = k as f64 / d as f64;
    let pi = std::f64::consts::PI;
    match spelling % 18 {
        9 => {
            let t = if k < 0 { format!("{x} - {}*pi/{d}", -k) } else { format!("{x} + {k}*pi/{d}") };
            return (t, approx_of(kd + x / pi), false);
        }
        10 => return (format!("{k}*pi/{d} - {x}"), approx_of(kd - x / pi), false),
        11 => return (format!("({k}*pi/{d} + {x})"), approx_of(kd + x / pi), false),
        12 => return (format!("-{x} + pi/{d}"), approx_of(1.0 / d as f64 - x / pi), false),
        13 => return (format!("2*({k}*pi/{})", 2 * d), (k, d), true),
        14 => return (format!("{k}*pi/{d} + pi/2"), norm_phase((2 * k + d, 2 * d)), true),
        15 => return (format!("-({}*pi/{d})", -k), (k, d), true),
        16 => return (format!("{x} + {}", xs[(d as usize) % xs.len()]), approx_of((x + xs[(d as usize) % xs.len()]) / pi), false),
        17 => {
            let t = if k < 0 { format!("pi/{d} - {x} - {}*pi/{d}", -k) } else { format!("pi/{d} - {x} + {k}*pi/{d}") };
            return (t, approx_of((k + 1) as f64 / d as f64 - x / pi), false);
        }
        _ => {}
    }
    match spelling % 18 {
        0 => (format!("{k}*pi/{d}"), (k, d), true),
        1 => (format!("pi*{k}/{d}"), (k, d), true),
        2 => (format!("{k}/{d}*pi"), (k, d), true),
        3 => (format!("({k}*pi)/{d}"), (k, d), true),
        4 => {
            if k == 1 {
                (if d == 1 { "pi".to_string() } else { format!("pi/{d}") }, (k, d), true)
            } else if k == -1 {
                (format!("-pi/{d}"), (k, d), true)
            } else {
                (format!("{k}*pi/{d}"), (k, d), true)
            }
        }
        5 => {
            if exact_decimal {
                (format!("{}*pi", k as f64 / d as f64), (k, d), true)
            } else {
                (format!("{k}*pi/{d}"), (k, d), true)
            }
        }
        6 => {
            // radians as a decimal
            let x = k as f64 / d as f64 * std::f64::consts::PI;
            (format!("{x:.9}"), (k, d), false)
        }
        7 => {
            // an extra full turn
            (format!("{}*pi/{d}", k + 2 * d), (k, d), true)
        }
        _ => {
            if exact_decimal {
                (format!("pi*{}", k as f64 / d as f64), (k, d), true)
            } else {
                (format!("{k}*pi/{d}"), (k, d), true)
            }
        }
    }
}

pub struct Built {
    pub text: String,
    pub expected: Option<Circ>, // None = must be rejected
    approx: bool,
    bad_first: bool,
    bad_kind: Option<Unsupported>,
    used_broadcast: bool,
    nregs: usize,
}

pub fn build(c: &TextCase) -> Built {
    let sizes: Vec<usize> = c.regs.iter().take(4).map(|&s| 1 + (s as usize % 3)).collect();
    let sizes = if sizes.is_empty() { vec![2] } else { sizes };
    let mut base = vec![];
    let mut n = 0;
    for &s in &sizes {
        base.push(n);
        n += s;
    }
    let ncreg = 1 + c.creg as usize % 3;
    let mut text = String::from("OPENQASM 2.0;\n");
    if c.include {
        text += "include \"qelib1.inc\";\n";
    }
    for (i, &s) in sizes.iter().enumerate() {
        text += &format!("qreg {}[{}];\n", REG_NAMES[i], s);
    }
    text += &format!("creg c[{ncreg}];\n");
    if c.define_user_gate {
        text += "gate mygate(a) x, y { cx x, y; rz(a) y; h x; }\n";
    }
    let mut gates: Vec<MGate> = vec![];
    let mut approx = false;
    let mut bad: Option<Unsupported> = None;
    let mut bad_first = false;
    let mut used_broadcast = false;
    let mut emitted_any = false;
    // resolve args -> Vec of (text, Vec<qubit list per broadcast step>)
    let resolve = |args: &[ArgSpec], arity: usize| -> Option<(String, Vec<Vec<usize>>, bool)> {
        if args.len() < arity {
            return None;
        }
        let mut texts = vec![];
        let mut cols: Vec<Vec<usize>> = vec![];
        let mut any_reg = false;
        for a in args.iter().take(arity) {
            match a {
                ArgSpec::Bit(r, i) => {
                    let r = idx(*r, sizes.len());
                    let i = idx(*i, sizes[r]);
                    texts.push(format!("{}[{}]", REG_NAMES[r], i));
                    cols.push(vec![base[r] + i]);
                }
                ArgSpec::Reg(r) => {
                    let r = idx(*r, sizes.len());
                    texts.push(REG_NAMES[r].to_string());
                    cols.push((0..sizes[r]).map(|i| base[r] + i).collect());
                    any_reg = true;
                }
            }
        }
        // broadcast: all whole-register args must have the same size
        let regsizes: Vec<usize> = cols.iter().filter(|c| c.len() > 1).map(|c| c.len()).collect();
        let steps = regsizes.first().copied().unwrap_or(1);
        if regsizes.iter().any(|&s| s != steps) {
            return None;
        }
        // size-1 registers given as whole registers behave like bits
        let mut out = vec![];
        for s in 0..steps {
            let qs: Vec<usize> = cols.iter().map(|c| if c.len() > 1 { c[s] } else { c[0] }).collect();
            // all qubits of one application must be distinct
            let mut u = qs.clone();
            u.sort();
            u.dedup();
            if u.len() != qs.len() {
                return None;
            }
            out.push(qs);
        }
        Some((texts.join(", "), out, any_reg && steps > 1))
    };
    for (si, st) in c.stmts.iter().enumerate() {
        if bad.is_some() {
            break;
        }
        match st {
            StmtSpec::Gate {
                k,
                args,
                phase,
                spelling,
            } => {
                let arity = k.arity().unwrap_or(1);
                let Some((atext, apps, bc)) = resolve(args, arity) else { continue };
                let name = k.gtype().qasm_name();
                if k.has_phase() {
                    let (ptext, p, exact) = spell(*phase, *spelling);
                    approx |= !exact;
                    text += &format!("{name}({ptext}) {atext};\n");
                    for qs in apps {
                        gates.push(MGate::ph(*k, qs, p));
                    }
                } else {
                    text += &format!("{name} {atext};\n");
                    for qs in apps {
                        gates.push(MGate::new(*k, qs));
                    }
                }
                used_broadcast |= bc;
                emitted_any = true;
            }
            StmtSpec::UserGate {
                args,
                phase,
                spelling,
            } => {
                if !c.define_user_gate {
                    continue;
                }
                let Some((atext, apps, bc)) = resolve(args, 2) else { continue };
                let (ptext, p, exact) = spell(*phase, *spelling);
                approx |= !exact;
                text += &format!("mygate({ptext}) {atext};\n");
                for qs in apps {
                    gates.push(MGate::new(GK::Cx, vec![qs[0], qs[1]]));
                    gates.push(MGate::ph(GK::Rz, vec![qs[1]], p));
                    gates.push(MGate::new(GK::H, vec![qs[0]]));
                }
                used_broadcast |= bc;
                emitted_any = true;
            }
            StmtSpec::BuiltinCx(args) => {
                let Some((atext, apps, bc)) = resolve(args, 2) else { continue };
                text += &format!("CX {atext};\n");
                for qs in apps {
                    gates.push(MGate::new(GK::Cx, qs));
                }
                used_broadcast |= bc;
                emitted_any = true;
            }
            StmtSpec::Measure(r, i) => {
                let r = idx(*r, sizes.len());
                let i = idx(*i, sizes[r]);
                let cb = si % ncreg;
                text += &format!("measure {}[{}] -> c[{}];\n", REG_NAMES[r], i, cb);
                gates.push(MGate {
                    k: GK::MeasureD,
                    qs: vec![base[r] + i],
                    phase: (0, 1),
                    vars: vec![cb as u32],
                });
                emitted_any = true;
            }
            StmtSpec::Comment => {
                text += "// a comment; h q[0];\n";
            }
            StmtSpec::Bad(u) => {
                bad_first = !emitted_any;
                bad = Some(u.clone());
                match u {
                    Unsupported::Barrier => text += &format!("barrier {};\n", REG_NAMES[0]),
                    Unsupported::Reset => text += &format!("reset {}[0];\n", REG_NAMES[0]),
                    Unsupported::Conditional => text += &format!("if(c==1) x {}[0];\n", REG_NAMES[0]),
                    Unsupported::UGate => text += &format!("U(0,0,pi/2) {}[0];\n", REG_NAMES[0]),
                    Unsupported::UndefinedGate(i) => {
                        let names = ["y", "u1(pi/2)", "id", "sx", "foo", "rzz(pi/4)"];
                        text += &format!("{} {}[0];\n", names[*i as usize % names.len()], REG_NAMES[0]);
                    }
                    Unsupported::Syntax(i) => {
                        let junk = [
                            "h q[0]\n",
                            "h q[0;\n",
                            "cx q[0] q[0];\n",
                            "rz(pi/) q[0];\n",
                            "qreg;\n",
                            "h nosuchreg[0];\n",
                            "h q[99];\n",
                            "cx q[0], q[0];\n",
                        ];
                        text += junk[*i as usize % junk.len()];
                    }
                }
                // more supported statements may follow
                text += &format!("h {}[0];\n", REG_NAMES[0]);
            }
        }
    }
    Built {
        text,
        expected: if bad.is_some() { None } else { Some(Circ { n, gates }) },
        approx,
        bad_first,
        bad_kind: bad,
        used_broadcast,
        nregs: sizes.len(),
    }
}

fn check_text(c: &TextCase, obs: &mut Obs) -> Result<(), String> {
    let b = build(c);
    let r = guarded("from_qasm", || Circuit::from_qasm(&b.text));
    let show = || b.text.replace('\n', " ");
    match &b.expected {
        Some(want) => {
            obs.class("supported-text");
            obs.class_if(b.used_broadcast, "register-broadcast");
            obs.class_if(b.nregs >= 2, "several-registers");
            obs.class_if(b.approx, "radian-decimal");
            let has_phase = want.gates.iter().any(|g| g.k.has_phase() && g.phase.1 >= 3);
            if has_phase && (b.nregs >= 2 || want.gates.iter().any(|g| g.qs.len() == 3)) {
                obs.nontrivial();
            }
            let parsed = r?;
            let parsed = match parsed {
                Ok(p) => p,
                Err(e) => return Err(format!("supported text rejected: {e}; text: {}", show())),
            };
            if want.gates.is_empty() {
                if parsed.num_qubits() != want.n {
                    return obs.known(
                        "qasm-zero-gates-loses-qubits",
                        format!("a program without gate statements on {} qubits parses to {} qubits", want.n, parsed.num_qubits()),
                    );
                }
                return Ok(());
            }
            same_circuit(want, &parsed, if b.approx { Some(1e-5) } else { None })
                .map_err(|e| format!("parsed circuit differs from the expected one: {e}; text: {}", show()))
        }
        None => {
            obs.class("unsupported-text");
            if !b.bad_first {
                obs.class("offending-construct-not-first");
                obs.nontrivial();
            }
            match r {
                Err(p) => {
                    if matches!(b.bad_kind, Some(Unsupported::Conditional)) && p.contains("openqasm") {
                        return obs.known(
                            "qasm-conditional-panics",
                            format!("a conditional statement panics inside the openqasm crate instead of being reported: {p}"),
                        );
                    }
                    Err(format!("{p}; text: {}", show()))
                }
                Ok(Ok(circ)) => Err(format!(
                    "text with an unsupported construct ({:?}) was accepted as a circuit with {} gates; text: {}",
                    b.bad_kind,
                    circ.num_gates(),
                    show()
                )),
                Ok(Err(_)) => Ok(()),
            }
        }
    }
}

fn arg_spec() -> BoxedStrategy<ArgSpec> {
    prop_oneof![
        5 => (any::<u16>(), any::<u16>()).prop_map(|(r, i)| ArgSpec::Bit(r, i)),
        1 => any::<u16>().prop_map(ArgSpec::Reg),
    ]
    .boxed()
}

fn phase_small() -> BoxedStrategy<(i64, i64)> {
    (prop::sample::select(vec![1i64, 2, 3, 4, 5, 6, 7, 8, 9, 10, 12, 16]), any::<u16>())
        .prop_map(|(d, r)| norm_phase((((r as i64) * 2 * d) >> 16, d)))
        .boxed()
}

fn stmt_spec(bad: bool) -> BoxedStrategy<StmtSpec> {
    let kinds: Vec<GK> = qasm_kinds().into_iter().map(|(_, k)| k).collect();
    let gate = (
        prop::sample::select(kinds),
        prop::collection::vec(arg_spec(), 3),
        phase_small(),
        0u8..18,
    )
        .prop_map(|(k, args, phase, spelling)| StmtSpec::Gate {
            k,
            args,
            phase,
            spelling,
        });
    let user = (prop::collection::vec(arg_spec(), 2), phase_small(), 0u8..18).prop_map(
        |(args, phase, spelling)| StmtSpec::UserGate {
            args,
            phase,
            spelling,
        },
    );
    let good = prop_oneof![
        12 => gate,
        2 => user,
        1 => prop::collection::vec(arg_spec(), 2).prop_map(StmtSpec::BuiltinCx),
        1 => (any::<u16>(), any::<u16>()).prop_map(|(r, i)| StmtSpec::Measure(r, i)),
        1 => Just(StmtSpec::Comment),
    ];
    if bad {
        prop_oneof![
            10 => good,
            1 => prop_oneof![
                Just(Unsupported::Barrier),
                Just(Unsupported::Reset),
                Just(Unsupported::Conditional),
                Just(Unsupported::UGate),
                (0u8..6).prop_map(Unsupported::UndefinedGate),
                (0u8..8).prop_map(Unsupported::Syntax),
            ]
            .prop_map(StmtSpec::Bad),
        ]
        .boxed()
    } else {
        good.boxed()
    }
}

pub fn text_case(bad: bool) -> BoxedStrategy<TextCase> {
    (
        prop::collection::vec(0u8..3, 1..=3),
        0u8..3,
        any::<bool>(),
        any::<bool>(),
        prop::collection::vec(stmt_spec(bad), 0..=10),
    )
        .prop_map(|(regs, creg, include, define_user_gate, stmts)| TextCase {
            regs,
            creg,
            include,
            define_user_gate,
            stmts,
        })
        .boxed()
}

pub fn def(ctx: &Ctx) -> PropertyDef {
    let t = ctx.tier;
    let rt = move |pal: Palette| {
        move || {
            circ_spec(CircParams {
                min_q: 1,
                max_q: 8,
                max_gates: t.pick(16, 40),
                kinds: qasm_kinds(),
                palette: pal,
                max_var: 0,
            })
            .prop_map(|circ| RtCase { circ })
        }
    };
    PropertyDef {
        id: "C14",
        rule: "(a) circuits over rz/rx/x/z/s/t/sdg/tdg/h/cx/cz/ccx/ccz/swap/xcx/init_anc/post_sel on 1-8 qubits incl. zero gates, phases k/d: from_qasm(to_qasm(c)) must equal c; the by-name builders add_gate / add_gate_with_phase, Display and Circuit::from_file must agree with Gate values, to_qasm and from_qasm (qubit count, gate kinds, qubit arguments, phases exactly for d<=16; larger d generated, reported and compared to 1e-9). (b) grammar-generated QASM: 1-3 qregs of sizes 1-3, a creg, optional include, comments, a user gate definition, builtin CX, measure, register broadcast, phase spellings k*pi/d, pi*k/d, k/d*pi, (k*pi)/d, pi/d, -pi/d, decimal multiples of pi, radians as decimals, extra full turns, and expressions mixing a radian constant with a multiple of pi (x + k*pi/d, k*pi/d - x, parenthesised, -x + pi/d, 2*(k*pi/2d), k*pi/d + pi/2, -(-k*pi/d), x + y, three-term sums): parsed circuit must equal the expected gate list with register offsets in declaration order (radians to 1e-5 half-turns); texts with barrier / reset / if / U(...) / undefined gate names / syntax and range errors (first or after supported gates) must return Err - no panic, no silently dropped gate. Non-trivial = phase gate with d>=3 together with several registers or a three-qubit gate; error text whose offending construct is not first.",
        assumptions: vec![
            "expected gate lists are produced by the generator alongside the text (own model of register layout and broadcast order)",
        ],
        sections: vec![
            Section::random("roundtrip-small-denominators", ctx.cases(20000, 400000), rt(Palette::General), check_roundtrip),
            Section::random("roundtrip-quarter", ctx.cases(5000, 100000), rt(Palette::ExactT), check_roundtrip),
            Section::random("texts-supported", ctx.cases(8000, 160000), || text_case(false), check_text),
            Section::random("texts-with-errors", ctx.cases(4000, 80000), || text_case(true), check_text),
        ],
    }
}

/// Entry point for the libFuzzer target on raw QASM text: the front end must not panic (a panic
/// aborts the target), and a circuit it accepts must survive print -> parse when it lies in the
/// printable gate set.
pub fn check_fuzz_text(text: &str) -> Result<(), String> {
    // a register of 10^15 qubits makes the openqasm front end allocate that many symbols and the
    // process abort for lack of memory: resource exhaustion, not a statement of the property
    // (inconclusive by the rules, so such texts are not run at all)
    let mut digits = 0;
    for ch in text.chars() {
        if ch.is_ascii_digit() {
            digits += 1;
            if digits > 5 {
                return Ok(());
            }
        } else {
            digits = 0;
        }
    }
    let Ok(c) = Circuit::from_qasm(text) else {
        return Ok(());
    };
    let Some(m) = Circ::from_quizx(&c) else {
        return Ok(());
    };
    let printable: Vec<GK> = qasm_kinds().into_iter().map(|(_, k)| k).collect();
    if m.gates.iter().any(|g| !printable.contains(&g.k)) {
        return Ok(());
    }
    // a program without any qubit prints as `qreg q[0];`, which is not OpenQASM; the property is
    // about circuits on at least one qubit
    if m.n == 0 {
        return Ok(());
    }
    if m.gates.iter().any(|g| g.qs.iter().any(|&q| q >= m.n)) {
        return Err(format!("accepted a gate on a qubit outside the {} declared qubits", m.n));
    }
    let printed = c.to_qasm();
    let back = match Circuit::from_qasm(&printed) {
        Ok(b) => b,
        Err(e) => return Err(format!("printed form of an accepted circuit does not parse: {e}; printed: {printed}")),
    };
    let small = m
        .gates
        .iter()
        .all(|g| !g.k.has_phase() || g.phase.1 <= 16);
    same_circuit(&m, &back, if small { None } else { Some(1e-6) })
        .map_err(|e| format!("print -> parse changed an accepted circuit: {e}; printed: {printed}"))
}
