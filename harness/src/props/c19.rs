//! C19 — workload generators are reproducible and deliver the instances they promise.

use super::common::*;
use crate::engine::{Ctx, Obs, PropertyDef, Section};
use crate::oracle::csim::{self, Circ, GK};
use crate::oracle::diag::snapshot;
use crate::oracle::ring::{Ring, Zw};
use crate::oracle::zxeval;
use proptest::prelude::*;
use quizx::circuit::Circuit;
use quizx::gate::GType;
use quizx::graph::GraphLike;
use quizx::random_graph::EquatorialStabilizerStateBuilder;
use serde::{Deserialize, Serialize};

#[derive(Clone, Debug, Serialize, Deserialize)]
pub struct RandCase {
    pub seed: u64,
    pub qubits: usize,
    pub depth: usize,
    /// probabilities in 1/20ths: cnot, cz, h, s, t
    pub p: [u8; 5],
    pub preset: u8,
    /// a sequence of distribution-setting calls on one builder (kind, value in 1/20ths):
    /// 0..4 p_cnot/p_cz/p_h/p_s/p_t, 5 with_cliffords, 6 clifford_t, 7 uniform
    #[serde(default)]
    pub calls: Vec<(u8, u8)>,
}

/// model of RandomCircuitBuilder's documented state: [cnot, cz, h, s, t], all 0 on a fresh builder
fn model_calls(calls: &[(u8, u8)]) -> [f32; 5] {
    let mut p = [0.0f32; 5];
    for &(k, v) in calls {
        let x = v as f32 / 20.0;
        match k % 8 {
            k @ 0..=4 => p[k as usize] = x,
            5 => {
                let q = (1.0 - p[4] - p[1]) / 3.0;
                p[0] = q;
                p[2] = q;
                p[3] = q;
            }
            6 => {
                // documented as p_t(x) followed by with_cliffords()
                p[4] = x;
                let q = (1.0 - p[4] - p[1]) / 3.0;
                p[0] = q;
                p[2] = q;
                p[3] = q;
            }
            _ => p = [0.2; 5],
        }
    }
    p
}

fn check_call_sequence(c: &RandCase, obs: &mut Obs) -> Result<(), String> {
    let want = model_calls(&c.calls);
    let by_calls = guarded("RandomCircuitBuilder (call sequence)", || {
        let mut b = Circuit::random();
        b.seed(c.seed).qubits(c.qubits).depth(c.depth);
        for &(k, v) in &c.calls {
            let x = v as f32 / 20.0;
            match k % 8 {
                0 => b.p_cnot(x),
                1 => b.p_cz(x),
                2 => b.p_h(x),
                3 => b.p_s(x),
                4 => b.p_t(x),
                5 => b.with_cliffords(),
                6 => b.clifford_t(x),
                _ => b.uniform(),
            };
        }
        b.build()
    })?;
    let explicit = guarded("RandomCircuitBuilder (explicit probabilities)", || {
        Circuit::random()
            .seed(c.seed)
            .qubits(c.qubits)
            .depth(c.depth)
            .p_cnot(want[0])
            .p_cz(want[1])
            .p_h(want[2])
            .p_s(want[3])
            .p_t(want[4])
            .build()
    })?;
    if by_calls != explicit {
        return Err(format!(
            "the builder calls {:?} document the probabilities {want:?} (cnot, cz, h, s, t), but a fresh builder given those values explicitly builds a different circuit for the same seed ({} vs {} gates)",
            c.calls,
            by_calls.num_gates(),
            explicit.num_gates()
        ));
    }
    let total: f32 = want.iter().sum();
    if want.iter().all(|&x| x >= 0.0) && total >= 1.05 && by_calls.num_gates() != c.depth {
        return Err(format!("probabilities {want:?} sum to {total} >= 1 but {} of {} gates were produced", by_calls.num_gates(), c.depth));
    }
    obs.class("call-sequence");
    obs.class_if(c.calls.iter().filter(|(k, _)| k % 8 >= 5).count() >= 2, "two-presets-on-one-builder");
    if by_calls.num_gates() >= 5 {
        obs.nontrivial();
    }
    Ok(())
}

fn build_random(c: &RandCase) -> Circuit {
    let mut b = Circuit::random();
    b.seed(c.seed).qubits(c.qubits).depth(c.depth);
    match c.preset % 4 {
        1 => {
            b.uniform();
        }
        2 => {
            b.clifford_t(c.p[4] as f32 / 20.0);
        }
        3 => {
            b.p_t(c.p[4] as f32 / 20.0).p_cz(c.p[1] as f32 / 20.0).with_cliffords();
        }
        _ => {
            b.p_cnot(c.p[0] as f32 / 20.0)
                .p_cz(c.p[1] as f32 / 20.0)
                .p_h(c.p[2] as f32 / 20.0)
                .p_s(c.p[3] as f32 / 20.0)
                .p_t(c.p[4] as f32 / 20.0);
        }
    }
    b.build()
}

/// the same parameters described through a different sequence of builder calls
fn build_random_alt(c: &RandCase) -> Circuit {
    let mut b = Circuit::random();
    // scrambled values first: the last call of each setter must win
    b.depth(c.depth + 3).qubits(c.qubits + 1).p_cnot(0.9).p_t(0.7);
    match c.preset % 4 {
        1 => {
            b.p_t(0.2).p_s(0.2).p_h(0.2).p_cz(0.2).p_cnot(0.2);
        }
        2 => {
            // clifford_t(p) is documented as p_t(p) followed by with_cliffords()
            b.p_cnot(0.0).p_t(c.p[4] as f32 / 20.0).with_cliffords();
        }
        3 => {
            let (pt, pcz) = (c.p[4] as f32 / 20.0, c.p[1] as f32 / 20.0);
            let p = (1.0 - pt - pcz) / 3.0;
            b.p_cnot(p).p_cz(pcz).p_h(p).p_s(p).p_t(pt);
        }
        _ => {
            b.p_t(c.p[4] as f32 / 20.0)
                .p_s(c.p[3] as f32 / 20.0)
                .p_h(c.p[2] as f32 / 20.0)
                .p_cz(c.p[1] as f32 / 20.0)
                .p_cnot(c.p[0] as f32 / 20.0);
        }
    }
    b.qubits(c.qubits).depth(c.depth).seed(c.seed);
    b.build()
}

fn check_random(c: &RandCase, obs: &mut Obs) -> Result<(), String> {
    if !c.calls.is_empty() {
        return check_call_sequence(c, obs);
    }
    let a = guarded("RandomCircuitBuilder::build", || build_random(c))?;
    let b = guarded("RandomCircuitBuilder::build", || build_random(c))?;
    if a != b {
        return Err("same seed and parameters gave two different circuits".into());
    }
    let alt = guarded("RandomCircuitBuilder::build", || build_random_alt(c))?;
    if alt != a {
        return Err(format!(
            "the same seed and parameters given through a different sequence of builder calls (preset {}) gave a different circuit",
            c.preset % 4
        ));
    }
    if a.num_qubits() != c.qubits {
        return Err(format!("circuit has {} qubits, asked for {}", a.num_qubits(), c.qubits));
    }
    if a.num_gates() > c.depth {
        return Err(format!("{} gates exceed the depth {}", a.num_gates(), c.depth));
    }
    let probs: [f32; 5] = match c.preset % 4 {
        1 => [0.2; 5],
        2 => {
            let pt = c.p[4] as f32 / 20.0;
            let p = (1.0 - pt) / 3.0;
            [p, 0.0, p, p, pt]
        }
        3 => {
            let (pt, pcz) = (c.p[4] as f32 / 20.0, c.p[1] as f32 / 20.0);
            let p = (1.0 - pt - pcz) / 3.0;
            [p, pcz, p, p, pt]
        }
        _ => [
            c.p[0] as f32 / 20.0,
            c.p[1] as f32 / 20.0,
            c.p[2] as f32 / 20.0,
            c.p[3] as f32 / 20.0,
            c.p[4] as f32 / 20.0,
        ],
    };
    let total: f32 = probs.iter().sum();
    if total >= 1.05 || (c.preset % 4 == 1) {
        if a.num_gates() != c.depth {
            return Err(format!(
                "probabilities sum to {total} >= 1 but only {} of {} gates were produced",
                a.num_gates(),
                c.depth
            ));
        }
    }
    for g in &a.gates {
        let (i, arity) = match g.t {
            GType::CNOT => (0, 2),
            GType::CZ => (1, 2),
            GType::HAD => (2, 1),
            GType::S => (3, 1),
            GType::T => (4, 1),
            t => return Err(format!("unexpected gate kind {t:?}")),
        };
        if probs[i] <= 0.0 {
            return Err(format!("gate kind {:?} occurs although its probability is zero", g.t));
        }
        if g.qs.len() != arity {
            return Err(format!("{:?} on {} qubits", g.t, g.qs.len()));
        }
        if g.qs.iter().any(|&q| q >= c.qubits) {
            return Err(format!("qubit out of range in {g:?}"));
        }
        if arity == 2 && g.qs[0] == g.qs[1] {
            return Err(format!("two-qubit gate on equal qubits: {g:?}"));
        }
    }
    if a.num_gates() >= 5 {
        obs.nontrivial();
    }
    obs.class_if(total < 1.0, "probabilities-sum<1");
    obs.class_if(probs.iter().any(|&p| p == 0.0), "some-probability-zero");
    // a different seed should (almost always) give a different circuit when there is choice
    Ok(())
}

#[derive(Clone, Debug, Serialize, Deserialize)]
pub struct HsCase {
    pub seed: u64,
    pub half: usize,
    pub depth: usize,
    pub n_ccz: usize,
}

fn build_hs(c: &HsCase) -> (Circuit, Vec<u8>) {
    Circuit::random_hidden_shift()
        .seed(c.seed)
        .qubits(2 * c.half)
        .clifford_depth(c.depth)
        .n_ccz(c.n_ccz)
        .build()
}

fn check_hs(c: &HsCase, obs: &mut Obs) -> Result<(), String> {
    let (a, sa) = guarded("RandomHiddenShiftCircuitBuilder::build", || build_hs(c))?;
    let (b, sb) = guarded("RandomHiddenShiftCircuitBuilder::build", || build_hs(c))?;
    if a != b || sa != sb {
        return Err("same seed and parameters gave two different instances".into());
    }
    let n = 2 * c.half;
    if a.num_qubits() != n || sa.len() != n {
        return Err(format!("{} qubits / shift of length {}, asked for {n}", a.num_qubits(), sa.len()));
    }
    if sa.iter().any(|&b| b > 1) {
        return Err("shift string contains a value other than 0/1".into());
    }
    let nccz = a.gates.iter().filter(|g| g.t == GType::CCZ).count();
    if nccz != 2 * c.n_ccz {
        return Err(format!("{nccz} CCZ gates, expected 2 x {}", c.n_ccz));
    }
    for g in &a.gates {
        let mut q = g.qs.clone();
        q.sort();
        q.dedup();
        if q.len() != g.qs.len() || g.qs.iter().any(|&x| x >= n) {
            return Err(format!("gate with repeated / out-of-range qubits: {g:?}"));
        }
    }
    // the promise: measuring C|0..0> gives the shift with probability one
    let m = Circ::from_quizx(&a).ok_or("unknown gate")?;
    let t = csim::simulate_state::<Zw>(&m).map_err(|e| format!("{e:?}"))?;
    // column 0 (all-zero input): entries data[0 * rows + r]
    let rows = 1usize << n;
    let mut idx = 0usize;
    for &b in &sa {
        idx = (idx << 1) | b as usize;
    }
    let amp = t.data[idx];
    let p = amp.norm_sq();
    if p != Zw::ONE {
        // where did the weight go?
        let (best, _) = (0..rows)
            .map(|r| (r, t.data[r].to_c64().norm_sqr()))
            .fold((0, -1.0), |a, b| if b.1 > a.1 { b } else { a });
        return Err(format!(
            "|<shift|C|0>|^2 = {} (exactly {:?}) for shift {:?}; the most likely outcome is {:0width$b}",
            p.to_c64().re,
            p,
            sa,
            best,
            width = n
        ));
    }
    if c.n_ccz >= 1 && sa.iter().any(|&b| b == 1) {
        obs.nontrivial();
    }
    obs.class_if(c.n_ccz == 0, "no-ccz");
    Ok(())
}

#[derive(Clone, Debug, Serialize, Deserialize)]
pub struct PgCase {
    pub seed: u64,
    pub qubits: usize,
    pub depth: usize,
    pub min_w: usize,
    pub max_w: usize,
    pub denom: usize,
    /// force min_w == max_w (the `weight(w)` shorthand then describes the same instance)
    #[serde(default)]
    pub fixed: bool,
}

/// the same instance through other builder calls: setters in another order after scrambled
/// values, and the `weight(w)` shorthand when the range is a single weight
fn build_pg_alt(c: &PgCase, shorthand: bool) -> Circuit {
    let mut b = Circuit::random_pauli_gadget();
    b.phase_denom(c.denom + 1).depth(c.depth + 2).qubits(c.qubits + 3);
    if shorthand {
        b.max_weight(c.max_w + 2).min_weight(1).weight(c.max_w);
    } else {
        b.weight(c.max_w + 1).max_weight(c.max_w).min_weight(c.min_w);
    }
    b.qubits(c.qubits).depth(c.depth).phase_denom(c.denom).seed(c.seed);
    b.build()
}

fn build_pg(c: &PgCase) -> Circuit {
    Circuit::random_pauli_gadget()
        .seed(c.seed)
        .qubits(c.qubits)
        .depth(c.depth)
        .min_weight(c.min_w)
        .max_weight(c.max_w)
        .phase_denom(c.denom)
        .build()
}

fn check_pg(c: &PgCase, obs: &mut Obs) -> Result<(), String> {
    let (min_w, max_w) = (c.min_w.min(c.max_w).min(c.qubits), c.max_w.max(c.min_w).min(c.qubits));
    let min_w = if c.fixed { max_w } else { min_w };
    let c = PgCase {
        min_w,
        max_w,
        ..c.clone()
    };
    let a = guarded("RandomPauliGadgetCircuitBuilder::build", || build_pg(&c))?;
    let b = guarded("RandomPauliGadgetCircuitBuilder::build", || build_pg(&c))?;
    if a != b {
        return Err("same seed and parameters gave two different circuits".into());
    }
    // weight 0 is outside the generator's documented range; everything else goes through the
    // alternative entry points as well
    if c.min_w >= 1 {
        let alt = guarded("RandomPauliGadgetCircuitBuilder::build (setters in another order)", || build_pg_alt(&c, false))?;
        if alt != a {
            return Err("the same seed and parameters given through a different order of builder calls gave a different circuit".into());
        }
        if c.min_w == c.max_w {
            obs.class("weight-shorthand");
            let alt = guarded(&format!("RandomPauliGadgetCircuitBuilder::weight({})", c.max_w), || build_pg_alt(&c, true))?;
            if alt != a {
                return Err(format!(
                    "weight({w}) gave a different circuit than min_weight({w}).max_weight({w}) for the same seed",
                    w = c.max_w
                ));
            }
        }
    }
    if a.num_qubits() != c.qubits {
        return Err("wrong qubit count".into());
    }
    let gates: Vec<_> = a.gates.iter().cloned().collect();
    let pps: Vec<usize> = (0..gates.len())
        .filter(|&i| gates[i].t == GType::ParityPhase)
        .collect();
    if pps.len() != c.depth {
        return Err(format!("{} parity-phase gates, expected depth {}", pps.len(), c.depth));
    }
    // unique segmentation: before the first pp and between pps the basis-change layers must split
    // as L_i^dagger L_{i+1}; walk greedily using the fact that |L_i| = |L_i^dagger|
    let mut pos = 0usize;
    let mut nonempty_layer = false;
    for (k, &i) in pps.iter().enumerate() {
        let l: Vec<_> = gates[pos..i].to_vec();
        let ln = l.len();
        if i + 1 + ln > gates.len() {
            return Err(format!("gadget {k}: no room for the adjoint basis-change layer"));
        }
        let r: Vec<_> = gates[i + 1..i + 1 + ln].to_vec();
        let g = &gates[i];
        // the gadget itself
        let mut qs = g.qs.clone();
        qs.sort();
        qs.dedup();
        if qs != g.qs {
            return Err(format!("gadget {k}: qubits {:?} are not sorted and distinct", g.qs));
        }
        if g.qs.len() < c.min_w || g.qs.len() > c.max_w {
            return Err(format!("gadget {k}: weight {} outside [{}, {}]", g.qs.len(), c.min_w, c.max_w));
        }
        if g.qs.iter().any(|&q| q >= c.qubits) {
            return Err(format!("gadget {k}: qubit out of range"));
        }
        let pr = g.phase.to_rational();
        // multiple of pi/denominator
        if (c.denom as i64) % pr.denom() != 0 {
            return Err(format!("gadget {k}: phase {pr} is not a multiple of pi/{}", c.denom));
        }
        if *pr.numer() == 0 {
            return Err(format!("gadget {k}: trivial phase"));
        }
        if c.denom >= 4 && c.denom % 2 == 0 && *pr.denom() <= 2 {
            return Err(format!("gadget {k}: Clifford phase {pr} although the denominator {} is even and >= 4", c.denom));
        }
        // layers
        let mut lq = vec![];
        for x in &l {
            let ok = match x.t {
                GType::HAD => true,
                GType::XPhase => x.phase.to_rational() == num::Rational64::new(1, 2),
                _ => false,
            };
            if !ok || x.qs.len() != 1 || !g.qs.contains(&x.qs[0]) {
                return Err(format!("gadget {k}: basis-change gate {x:?} is not H / X(pi/2) on one of the gadget's qubits"));
            }
            lq.push(x.qs[0]);
        }
        let mut sorted = lq.clone();
        sorted.sort();
        sorted.dedup();
        if sorted.len() != lq.len() {
            return Err(format!("gadget {k}: a qubit gets two basis-change gates"));
        }
        // r must be the adjoint of l
        for (x, y) in l.iter().rev().zip(r.iter()) {
            let mut xa = x.clone();
            xa.adjoint();
            if xa != *y {
                return Err(format!("gadget {k}: the layer after the gadget is not the adjoint of the layer before it ({x:?} vs {y:?})"));
            }
        }
        nonempty_layer |= ln > 0;
        pos = i + 1 + ln;
    }
    if pos != gates.len() {
        return Err("trailing gates after the last gadget".into());
    }
    if nonempty_layer {
        obs.nontrivial();
    }
    obs.class_if(c.denom % 2 == 1, "odd-denominator");
    obs.class_if(c.min_w == 0, "weight-zero-allowed");
    // semantics cross-check on small instances: the circuit is unitary and simulable
    if c.qubits <= 5 && c.depth <= 4 {
        let m = Circ::from_quizx(&a).ok_or("unknown gate")?;
        let _ = csim::simulate::<crate::oracle::ring::C64>(&m).map_err(|e| format!("{e:?}"))?;
        let _ = GK::Pp;
    }
    Ok(())
}

#[derive(Clone, Debug, Serialize, Deserialize)]
pub struct StabCase {
    pub seed: u64,
    pub qubits: usize,
}

fn check_stab_in<G: GraphLike + PartialEq>(c: &StabCase, name: &str, obs: &mut Obs) -> Result<(), String> {
    let a: G = guarded("EquatorialStabilizerStateBuilder::build", || {
        EquatorialStabilizerStateBuilder::new().seed(c.seed).qubits(c.qubits).build()
    })?;
    let b: G = EquatorialStabilizerStateBuilder::new().seed(c.seed).qubits(c.qubits).build();
    if a != b {
        return Err(format!("{name}: same seed gave two different diagrams"));
    }
    if a.outputs().len() != c.qubits || !a.inputs().is_empty() {
        return Err(format!("{name}: {} outputs, expected {}", a.outputs().len(), c.qubits));
    }
    let snap = snapshot(&a)?;
    snap.diag.check_wellformed().map_err(|e| format!("{name}: malformed state diagram: {e}"))?;
    let t = zxeval::eval::<Zw>(&snap.diag).map_err(|e| format!("{name}: {e:?}"))?;
    let mut norm = Zw::ZERO;
    for x in &t.data {
        norm = norm.add(&x.norm_sq());
    }
    if norm != Zw::ONE {
        return Err(format!("{name}: the state has squared norm {:?} (≈ {}), not 1", norm, norm.to_c64().re));
    }
    if a.num_edges() > c.qubits {
        obs.nontrivial();
    }
    Ok(())
}

fn check_stab(c: &StabCase, obs: &mut Obs) -> Result<(), String> {
    check_stab_in::<quizx::vec_graph::Graph>(c, "vec", obs)?;
    check_stab_in::<quizx::hash_graph::Graph>(c, "hash", obs)?;
    // both backends get the same random choices
    let v: quizx::vec_graph::Graph = EquatorialStabilizerStateBuilder::new().seed(c.seed).qubits(c.qubits).build();
    let h: quizx::hash_graph::Graph = EquatorialStabilizerStateBuilder::new().seed(c.seed).qubits(c.qubits).build();
    if v.num_edges() != h.num_edges() {
        return Err("the two backends built different states from the same seed".into());
    }
    Ok(())
}

pub fn def(ctx: &Ctx) -> PropertyDef {
    let t = ctx.tier;
    PropertyDef {
        id: "C19",
        rule: "seeds x admissible parameters. Random circuits (2-8 qubits, depth 0-60, probability vectors incl. zeros and sums < 1, the uniform / clifford_t / with_cliffords presets): build twice => equal, and equal again when the same parameters are given through a different sequence of builder calls (scrambled values first, setters in another order, explicit probabilities instead of a preset, weight(w) instead of min_weight(w).max_weight(w)); sequences of 1-5 distribution-setting calls (p_*, with_cliffords, clifford_t, uniform) on one builder against a model of the documented builder state: the circuit must equal the one a fresh builder builds from the modelled probabilities; gate kinds only with non-zero probability, distinct in-range qubits, length <= depth (== depth when the probabilities sum to >= 1 with margin). Hidden shift (6-10 (12) qubits, depth 0-40, 0-3 CCZ): the exact state vector from the harness simulator has |<shift|C|0>|^2 == 1. Pauli gadgets (weights <= qubits, denominators 1-16): the gate list segments uniquely into L . pp . L^dagger with sorted distinct qubits of admissible weight, phase a non-zero multiple of pi/denominator, non-Clifford for even denominators >= 4. Equatorial stabiliser states (1-8 qubits, both backends): squared norm exactly 1 by the harness evaluator. Non-trivial = random circuit with >= 5 gates; hidden shift with >= 1 CCZ and a non-zero shift; gadget circuit with a non-empty basis-change layer; state with more edges than qubits.",
        assumptions: vec!["harness simulator / evaluator (see selftest)"],
        sections: vec![
            Section::random(
                "random-circuits",
                ctx.cases(20000, 400000),
                || {
                    (
                        any::<u64>(),
                        2usize..=8,
                        0usize..=60,
                        prop::array::uniform5(0u8..=10),
                        0u8..4,
                        prop_oneof![
                            2 => Just(vec![]),
                            1 => prop::collection::vec((0u8..8, 0u8..=10), 1..=5),
                        ],
                    )
                        .prop_map(|(seed, qubits, depth, p, preset, calls)| RandCase {
                            seed,
                            qubits,
                            depth,
                            p,
                            preset,
                            calls,
                        })
                },
                check_random,
            ),
            Section::random(
                "hidden-shift",
                ctx.cases(600, 12000),
                move || {
                    (any::<u64>(), 3usize..=t.pick(5, 6), 0usize..=40, 0usize..=3).prop_map(
                        |(seed, half, depth, n_ccz)| HsCase {
                            seed,
                            half,
                            depth,
                            n_ccz,
                        },
                    )
                },
                check_hs,
            ),
            Section::random(
                "pauli-gadgets",
                ctx.cases(20000, 400000),
                || {
                    (any::<u64>(), 1usize..=8, 0usize..=12, 0usize..=8, 0usize..=8, 1usize..=16, prop_oneof![3 => Just(false), 1 => Just(true)]).prop_map(
                        |(seed, qubits, depth, min_w, max_w, denom, fixed)| PgCase {
                            seed,
                            qubits,
                            depth,
                            min_w,
                            max_w,
                            denom,
                            fixed,
                        },
                    )
                },
                check_pg,
            ),
            Section::random(
                "stabiliser-states",
                ctx.cases(5000, 100000),
                || (any::<u64>(), 1usize..=8).prop_map(|(seed, qubits)| StabCase { seed, qubits }),
                check_stab,
            ),
        ],
    }
}
