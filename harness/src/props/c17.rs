//! C17 — F2 matrix routines: ranks, echelon forms, recorded row operations, inverses, null spaces,
//! algebraic laws.

use super::common::*;
use crate::engine::{Ctx, Obs, PropertyDef, Section};
use proptest::prelude::*;
use quizx::linalg::{ColOps, Mat2, RowOps};
use serde::{Deserialize, Serialize};

/// model: rows as bit masks (bit j = column j)
#[derive(Clone, Debug, PartialEq, Eq)]
struct BM {
    rows: Vec<u64>,
    cols: usize,
}

impl BM {
    fn from_rows(rows: &[Vec<u8>], cols: usize) -> BM {
        BM {
            rows: rows
                .iter()
                .map(|r| r.iter().enumerate().fold(0u64, |a, (j, &b)| a | ((b as u64 & 1) << j)))
                .collect(),
            cols,
        }
    }
    fn of(m: &Mat2) -> Result<BM, String> {
        let rows = m.num_rows();
        let cols = m.num_cols();
        let mut out = vec![];
        for i in 0..rows {
            if m[i].len() != cols {
                return Err(format!("ragged matrix: row {i} has {} entries, expected {cols}", m[i].len()));
            }
            let mut r = 0u64;
            for j in 0..cols {
                match m[i][j] {
                    0 => {}
                    1 => r |= 1 << j,
                    x => return Err(format!("entry ({i},{j}) is {x}")),
                }
            }
            out.push(r);
        }
        Ok(BM { rows: out, cols })
    }
    /// canonical reduced row echelon form of the row space (non-zero rows only)
    fn rref(&self) -> Vec<u64> {
        let mut rows = self.rows.clone();
        let mut out: Vec<u64> = vec![];
        for c in 0..self.cols {
            if let Some(p) = rows.iter().position(|r| (r >> c) & 1 == 1 && (r & ((1u64 << c) - 1)) == 0) {
                let pr = rows.remove(p);
                for r in rows.iter_mut() {
                    if (*r >> c) & 1 == 1 {
                        *r ^= pr;
                    }
                }
                for r in out.iter_mut() {
                    if (*r >> c) & 1 == 1 {
                        *r ^= pr;
                    }
                }
                out.push(pr);
            }
        }
        out.sort();
        out
    }
    fn rank(&self) -> usize {
        // simple elimination
        let mut rows = self.rows.clone();
        let mut rank = 0;
        for c in 0..self.cols {
            if let Some(p) = (rank..rows.len()).find(|&i| (rows[i] >> c) & 1 == 1) {
                rows.swap(rank, p);
                let pr = rows[rank];
                for i in 0..rows.len() {
                    if i != rank && (rows[i] >> c) & 1 == 1 {
                        rows[i] ^= pr;
                    }
                }
                rank += 1;
            }
        }
        rank
    }
    fn mul(&self, o: &BM) -> BM {
        assert_eq!(self.cols, o.rows.len());
        BM {
            rows: self
                .rows
                .iter()
                .map(|&r| {
                    let mut acc = 0u64;
                    for k in 0..self.cols {
                        if (r >> k) & 1 == 1 {
                            acc ^= o.rows[k];
                        }
                    }
                    acc
                })
                .collect(),
            cols: o.cols,
        }
    }
    fn transpose(&self) -> BM {
        let mut rows = vec![0u64; self.cols];
        for (i, &r) in self.rows.iter().enumerate() {
            for j in 0..self.cols {
                if (r >> j) & 1 == 1 {
                    rows[j] |= 1 << i;
                }
            }
        }
        BM {
            rows,
            cols: self.rows.len(),
        }
    }
    fn identity(n: usize) -> BM {
        BM {
            rows: (0..n).map(|i| 1u64 << i).collect(),
            cols: n,
        }
    }
}

#[derive(Clone, Debug, PartialEq)]
enum Op {
    Add(usize, usize),
    Swap(usize, usize),
}

#[derive(Default)]
struct Recorder {
    ops: Vec<Op>,
}

impl RowOps for Recorder {
    fn row_add(&mut self, r0: usize, r1: usize) {
        self.ops.push(Op::Add(r0, r1));
    }
    fn row_swap(&mut self, r0: usize, r1: usize) {
        self.ops.push(Op::Swap(r0, r1));
    }
}

fn replay(ops: &[Op], m: &mut BM) -> Result<(), String> {
    for op in ops {
        match *op {
            Op::Add(a, b) => {
                if a >= m.rows.len() || b >= m.rows.len() || a == b {
                    return Err(format!("recorded row_add({a},{b}) is not a valid operation"));
                }
                m.rows[b] ^= m.rows[a];
            }
            Op::Swap(a, b) => {
                if a >= m.rows.len() || b >= m.rows.len() {
                    return Err(format!("recorded row_swap({a},{b}) out of range"));
                }
                m.rows.swap(a, b);
            }
        }
    }
    Ok(())
}

/// echelon-form predicate: returns the pivot columns
fn echelon(m: &BM, reduced: bool) -> Result<Vec<usize>, String> {
    let mut pivots = vec![];
    let mut seen_zero = false;
    let mut last: Option<usize> = None;
    for (i, &r) in m.rows.iter().enumerate() {
        if r == 0 {
            seen_zero = true;
            continue;
        }
        if seen_zero {
            return Err(format!("non-zero row {i} below a zero row"));
        }
        let p = r.trailing_zeros() as usize;
        if let Some(l) = last {
            if p <= l {
                return Err(format!("leading column of row {i} ({p}) is not right of row {}'s ({l})", i - 1));
            }
        }
        last = Some(p);
        pivots.push(p);
    }
    for (k, &p) in pivots.iter().enumerate() {
        for (i, &r) in m.rows.iter().enumerate() {
            if i != k && (r >> p) & 1 == 1 {
                if i > k {
                    return Err(format!("entry below pivot ({k},{p}) in row {i}"));
                }
                if reduced {
                    return Err(format!("entry above pivot ({k},{p}) in row {i} although fully reduced"));
                }
            }
        }
    }
    Ok(pivots)
}

#[derive(Clone, Debug, Serialize, Deserialize)]
pub struct Case {
    pub rows: usize,
    pub cols: usize,
    pub m: Vec<Vec<u8>>,
    pub y: Vec<Vec<u8>>,
    pub ycols: usize,
    /// second matrix for products (cols x k)
    pub b: Vec<Vec<u8>>,
    pub bcols: usize,
}

fn pad(m: &[Vec<u8>], rows: usize, cols: usize) -> Vec<Vec<u8>> {
    (0..rows)
        .map(|i| {
            (0..cols)
                .map(|j| m.get(i).and_then(|r| r.get(j)).copied().unwrap_or(0) & 1)
                .collect()
        })
        .collect()
}

fn check(c: &Case, obs: &mut Obs) -> Result<(), String> {
    // a Mat2 without rows cannot carry a column count
    let (rows, cols) = (c.rows, if c.rows == 0 { 0 } else { c.cols });
    let d = pad(&c.m, rows, cols);
    let m0 = Mat2::new(d.clone());
    let bm0 = BM::from_rows(&d, cols);
    let rank = bm0.rank();
    let rref0 = bm0.rref();
    obs.class_if(rank < rows.min(cols), "rank-deficient");
    obs.class_if(rows == cols && rank == rows && rows > 0, "invertible");
    // gauss with every block size, both modes, recording
    if cols > 0 {
        for bs in 1..=cols {
            for full in [false, true] {
                let what = format!("gauss_x(full_reduce={full}, blocksize={bs}) on {rows}x{cols}");
                let mut m = m0.clone();
                let mut rec = Recorder::default();
                let r = guarded(&what, || m.gauss_x(full, bs, &mut rec))?;
                if r != rank {
                    return Err(format!("{what}: returned rank {r}, true rank {rank}; matrix {d:?}"));
                }
                let res = BM::of(&m).map_err(|e| format!("{what}: {e}"))?;
                let piv = echelon(&res, full).map_err(|e| format!("{what}: result not in {}echelon form: {e}; matrix {d:?}", if full { "reduced " } else { "" }))?;
                if piv.len() != rank {
                    return Err(format!("{what}: {} non-zero rows, rank {rank}", piv.len()));
                }
                if res.rref() != rref0 {
                    return Err(format!("{what}: row space changed; matrix {d:?}"));
                }
                // recorded operations transform the matrix itself and any other object alike
                let mut again = bm0.clone();
                replay(&rec.ops, &mut again).map_err(|e| format!("{what}: {e}"))?;
                if again != res {
                    return Err(format!("{what}: replaying the reported row operations on the input does not give the result; matrix {d:?}"));
                }
                let y = pad(&c.y, rows, c.ycols);
                let mut ym = Mat2::new(y.clone());
                let mut m2 = m0.clone();
                guarded(&what, || m2.gauss_x(full, bs, &mut ym))?;
                let mut ymodel = BM::from_rows(&y, c.ycols);
                replay(&rec.ops, &mut ymodel)?;
                let ygot = BM::of(&ym)?;
                if c.ycols > 0 && ygot != ymodel {
                    return Err(format!("{what}: a second matrix passed as the proxy was not transformed by the same row operations"));
                }
                // g * m == m'
                let mut g = BM::identity(rows);
                replay(&rec.ops, &mut g)?;
                if g.mul(&bm0) != res {
                    return Err(format!("{what}: g*m != m' for the accumulated operations g"));
                }
                // a second elimination of the result: same rank, still echelon, same row space; the
                // fully reduced form is unique, so it is a fixed point
                {
                    let mut m3 = m.clone();
                    let r3 = guarded(&format!("{what} applied to its own result"), || m3.gauss_x(full, bs, &mut ()))?;
                    let res3 = BM::of(&m3)?;
                    if r3 != rank || echelon(&res3, full).is_err() || res3.rref() != rref0 {
                        return Err(format!("{what}: eliminating the result a second time gives rank {r3} / a different row space or no echelon form; matrix {d:?}"));
                    }
                    if full && res3 != res {
                        return Err(format!("{what}: the reduced echelon form is not a fixed point of the elimination; matrix {d:?}"));
                    }
                }
                // non-trivial: pivot column not at a block boundary with a deficient rank
                if rank < rows.min(cols) && piv.iter().any(|p| p % bs != 0) {
                    obs.nontrivial_key((bs as u64) << 1 | full as u64);
                }
            }
        }
    }
    // gauss (default block size) and rank
    for full in [false, true] {
        let mut m = m0.clone();
        let r = guarded("gauss", || m.gauss(full))?;
        if r != rank {
            return Err(format!("gauss({full}) returned {r}, true rank {rank}; matrix {d:?}"));
        }
        let res = BM::of(&m)?;
        echelon(&res, full).map_err(|e| format!("gauss({full}): {e}; matrix {d:?}"))?;
        if res.rref() != rref0 {
            return Err(format!("gauss({full}): row space changed; matrix {d:?}"));
        }
    }
    let r = guarded("rank", || m0.rank())?;
    if r != rank {
        return Err(format!("rank() = {r}, true rank {rank}; matrix {d:?}"));
    }
    // inverse
    let inv = guarded("inverse", || m0.inverse())?;
    let invertible = rows == cols && rank == rows;
    match inv {
        None => {
            if invertible {
                return Err(format!("inverse() = None for an invertible matrix {d:?}"));
            }
        }
        Some(i) => {
            if !invertible {
                return Err(format!("inverse() = Some for a singular / non-square matrix {d:?}"));
            }
            let bi = BM::of(&i)?;
            if bi.rows.len() != rows || (rows > 0 && bi.cols != cols) {
                return Err("inverse has the wrong shape".into());
            }
            if rows > 0 && (bi.mul(&bm0) != BM::identity(rows) || bm0.mul(&bi) != BM::identity(rows)) {
                return Err(format!("inverse() is not a two-sided inverse of {d:?}"));
            }
            if rows > 0 {
                let p = guarded("mul", || &m0 * &i)?;
                if BM::of(&p)? != BM::identity(rows) {
                    return Err("m * m.inverse() != id via Mat2::mul".into());
                }
            }
        }
    }
    // nullspace
    let ns = guarded("nullspace", || m0.nullspace())?;
    if rows > 0 || cols == 0 {
        if ns.len() != cols - rank {
            return Err(format!(
                "nullspace() returned {} vectors, expected cols - rank = {}; matrix {d:?}",
                ns.len(),
                cols - rank
            ));
        }
        let mut vs = vec![];
        for v in &ns {
            let bv = BM::of(v)?;
            if bv.rows.len() != 1 || bv.cols != cols {
                return Err(format!("nullspace vector has shape {}x{}", bv.rows.len(), bv.cols));
            }
            let x = bv.rows[0];
            for (i, &r) in bm0.rows.iter().enumerate() {
                if (r & x).count_ones() % 2 == 1 {
                    return Err(format!("nullspace vector {x:b} is not annihilated by row {i}; matrix {d:?}"));
                }
            }
            vs.push(x);
        }
        let indep = BM {
            rows: vs.clone(),
            cols,
        }
        .rank();
        if indep != vs.len() {
            return Err(format!("nullspace vectors are linearly dependent; matrix {d:?}"));
        }
    }
    // algebra
    let t = guarded("transpose", || m0.transpose())?;
    if rows > 0 && cols > 0 {
        if BM::of(&t)? != bm0.transpose() {
            return Err("transpose() wrong".into());
        }
        if t.transpose() != m0 {
            return Err("transpose is not an involution".into());
        }
        let bd = pad(&c.b, cols, c.bcols.max(1));
        let b = Mat2::new(bd.clone());
        let bbm = BM::from_rows(&bd, c.bcols.max(1));
        let p = guarded("mul", || &m0 * &b)?;
        if BM::of(&p)? != bm0.mul(&bbm) {
            return Err("Mat2 multiplication disagrees with the model".into());
        }
        // the three other operator impls (owned / borrowed operands) are the same product
        let want = bm0.mul(&bbm);
        for (name, q) in [
            ("Mat2 * Mat2", guarded("mul (owned, owned)", || m0.clone() * b.clone())?),
            ("&Mat2 * Mat2", guarded("mul (borrowed, owned)", || &m0 * b.clone())?),
            ("Mat2 * &Mat2", guarded("mul (owned, borrowed)", || m0.clone() * &b)?),
        ] {
            if BM::of(&q)? != want {
                return Err(format!("{name} disagrees with &Mat2 * &Mat2 and the model ({rows}x{cols} times {cols}x{})", c.bcols.max(1)));
            }
        }
        // (AB)^T = B^T A^T on temporaries
        if guarded("mul (owned, owned)", || b.transpose() * m0.transpose())? != p.transpose() {
            return Err("(AB)^T != B^T A^T with owned operands".into());
        }
        // constructors and element access
        {
            let z = Mat2::zeros(rows, cols);
            let o = Mat2::ones(rows, cols);
            let f = Mat2::build(rows, cols, |i, j| bm0.rows[i] >> j & 1 == 1);
            if f != m0 {
                return Err("Mat2::build(f) differs from Mat2::new of the same entries".into());
            }
            for i in 0..rows {
                for j in 0..cols {
                    let bit = (bm0.rows[i] >> j & 1) as u8;
                    if m0[(i, j)] != bit || m0[i][j] != bit || z[(i, j)] != 0 || o[(i, j)] != 1 {
                        return Err(format!("element access [({i},{j})] / zeros / ones wrong"));
                    }
                }
            }
            let mut w = z.clone();
            for i in 0..rows {
                for j in 0..cols {
                    if (i + j) % 2 == 0 {
                        w[(i, j)] = m0[(i, j)];
                    } else {
                        w[i][j] = m0[i][j];
                    }
                }
            }
            if w != m0 {
                return Err("writing every entry through IndexMut does not reproduce the matrix".into());
            }
            if Mat2::id(cols) != Mat2::build(cols, cols, |i, j| i == j) {
                return Err("Mat2::id".into());
            }
            // m * e_j = column j
            let j = (rows + cols) % cols;
            let e = Mat2::unit_vector(cols, j);
            let col = guarded("mul", || &m0 * e)?;
            for i in 0..rows {
                if col.num_cols() != 1 || col[(i, 0)] != m0[(i, j)] {
                    return Err(format!("m * unit_vector({cols},{j}) is not column {j}"));
                }
            }
            let ur: Vec<usize> = (0..rows).filter(|&i| bm0.rows[i].count_ones() == 1).collect();
            if m0.unit_rows() != ur {
                return Err(format!("unit_rows() = {:?}, rows with a single 1 are {ur:?}", m0.unit_rows()));
            }
        }
        // (AB)^T = B^T A^T
        let lhs = p.transpose();
        let rhs = guarded("mul", || &b.transpose() * &t)?;
        if lhs != rhs {
            return Err("(AB)^T != B^T A^T".into());
        }
        // associativity with y^T (ycols x rows) * m * b
        if c.ycols > 0 {
            let yt = Mat2::new(pad(&c.y, rows, c.ycols)).transpose();
            let l = guarded("mul", || &(&yt * &m0) * &b)?;
            let r = guarded("mul", || &yt * &(&m0 * &b))?;
            if l != r {
                return Err("matrix multiplication is not associative".into());
            }
        }
        // stacking
        let v = guarded("vstack", || m0.vstack(&m0))?;
        if v.num_rows() != 2 * rows || v.num_cols() != cols || BM::of(&v)?.rank() != rank {
            return Err("vstack(m,m) has the wrong shape or rank".into());
        }
        let h = guarded("hstack", || m0.hstack(&m0))?;
        if h.num_rows() != rows || h.num_cols() != 2 * cols || BM::of(&h)?.rank() != rank {
            return Err("hstack(m,m) has the wrong shape or rank".into());
        }
        if v.transpose() != t.hstack(&t) {
            return Err("vstack(m,m)^T != hstack(m^T,m^T)".into());
        }
        // row/col ops on matrices
        if rows >= 2 {
            let mut x = m0.clone();
            x.row_add(0, 1);
            let mut e = bm0.clone();
            e.rows[1] ^= e.rows[0];
            if BM::of(&x)? != e {
                return Err("RowOps::row_add on Mat2 wrong".into());
            }
            x.row_swap(0, 1);
            e.rows.swap(0, 1);
            if BM::of(&x)? != e {
                return Err("RowOps::row_swap on Mat2 wrong".into());
            }
        }
        if cols >= 2 {
            let mut x = m0.clone();
            x.col_add(0, 1);
            let mut tt = bm0.transpose();
            tt.rows[1] ^= tt.rows[0];
            if BM::of(&x)? != tt.transpose() {
                return Err("ColOps::col_add on Mat2 wrong".into());
            }
            x.col_swap(0, 1);
            tt.rows.swap(0, 1);
            if BM::of(&x)? != tt.transpose() {
                return Err("ColOps::col_swap on Mat2 wrong".into());
            }
        }
    }
    Ok(())
}

fn exhaustive(shard: usize, n: usize) -> Box<dyn Iterator<Item = Case>> {
    let mut shapes = vec![];
    for r in 1..=3usize {
        for c in 1..=4usize {
            shapes.push((r, c));
        }
    }
    let it = shapes.into_iter().flat_map(|(r, c)| {
        (0u32..(1u32 << (r * c))).map(move |bits| {
            let m: Vec<Vec<u8>> = (0..r)
                .map(|i| (0..c).map(|j| ((bits >> (i * c + j)) & 1) as u8).collect())
                .collect();
            // second matrix: a fixed non-trivial pattern
            let y: Vec<Vec<u8>> = (0..r)
                .map(|i| (0..3).map(|j| (((i * 5 + j * 3 + 1) >> (j % 2)) & 1) as u8).collect())
                .collect();
            let b: Vec<Vec<u8>> = (0..c)
                .map(|i| (0..2).map(|j| ((i + j) % 2) as u8).collect())
                .collect();
            Case {
                rows: r,
                cols: c,
                m,
                y,
                ycols: 3,
                b,
                bcols: 2,
            }
        })
    });
    Box::new(
        it.enumerate()
            .filter(move |(i, _)| i % n == shard)
            .map(|(_, c)| c),
    )
}

fn matrix(rows: usize, cols: usize) -> BoxedStrategy<Vec<Vec<u8>>> {
    // density-biased; rank-deficient by construction with some probability (product of thin
    // factors, duplicated rows / sub-rows)
    let dense = prop::collection::vec(prop::collection::vec(0u8..=1, cols), rows);
    let sparse = prop::collection::vec(
        prop::collection::vec(prop_oneof![4 => Just(0u8), 1 => Just(1u8)], cols),
        rows,
    );
    let k = 1 + rows.min(cols) / 3;
    let low_rank = (
        prop::collection::vec(prop::collection::vec(0u8..=1, k), rows),
        prop::collection::vec(prop::collection::vec(0u8..=1, cols), k),
    )
        .prop_map(move |(a, b)| {
            (0..rows)
                .map(|i| {
                    (0..cols)
                        .map(|j| (0..k).fold(0u8, |acc, l| acc ^ (a[i][l] & b[l][j])))
                        .collect()
                })
                .collect()
        });
    let dup = (
        prop::collection::vec(prop::collection::vec(0u8..=1, cols), rows),
        prop::collection::vec((any::<u16>(), any::<u16>(), any::<u16>(), 1usize..=4), 0..=4),
    )
        .prop_map(move |(mut m, dups)| {
            // copy sub-rows [c0, c0+len) from one row to another
            for (r0, r1, c0, len) in dups {
                if rows == 0 || cols == 0 {
                    break;
                }
                let (a, b) = (crate::gen::idx(r0, rows), crate::gen::idx(r1, rows));
                let c0 = crate::gen::idx(c0, cols);
                for j in c0..(c0 + len).min(cols) {
                    m[b][j] = m[a][j];
                }
            }
            m
        });
    prop_oneof![2 => dense, 1 => sparse, 2 => low_rank, 2 => dup].boxed()
}

fn case_strategy(max: usize) -> BoxedStrategy<Case> {
    (0..=max, 0..=max, 0usize..=3, 0usize..=3)
        .prop_flat_map(|(rows, cols, ycols, bcols)| {
            (
                matrix(rows, cols),
                prop::collection::vec(prop::collection::vec(0u8..=1, ycols), rows),
                prop::collection::vec(prop::collection::vec(0u8..=1, bcols.max(1)), cols),
            )
                .prop_map(move |(m, y, b)| Case {
                    rows,
                    cols,
                    m,
                    y,
                    ycols,
                    b,
                    bcols,
                })
        })
        .boxed()
}

pub fn def(ctx: &Ctx) -> PropertyDef {
    let sections = vec![
        Section::enumerate(
            "exhaustive<=3x4",
            "every 0/1 matrix with 1..3 rows and 1..4 columns x every block size 1..cols x both reduction modes",
            exhaustive,
            check,
        ),
        Section::random("random<=8", ctx.cases(20000, 400000), || case_strategy(8), check),
        Section::random("random<=24", ctx.cases(4000, 100000), || case_strategy(24), check),
    ];
    PropertyDef {
        id: "C17",
        rule: "every matrix up to 3x4 exhaustively, and random matrices up to 24x24 (dense, sparse, low-rank products, duplicated sub-rows, 0 rows / 0 columns), each x every block size 1..cols x both reduction modes: returned rank == naive rank; result in (reduced) echelon form; same row space; recorded row operations replayed on the input give the result, g*m == m', and a second matrix passed as proxy is transformed identically; inverse() Some iff invertible and two-sided; nullspace() vectors annihilated, independent, cols-rank many; transpose involutive, (AB)^T = B^T A^T, associativity, all four operator impls of * (owned / borrowed operands), constructors (new, build, zeros, ones, id, unit_vector), Index / IndexMut, unit_rows, stacking laws, RowOps/ColOps on matrices. Non-trivial = rank-deficient matrix with a pivot column not at a block boundary (per block size and mode).",
        assumptions: vec!["naive bit-row F2 model written for the harness"],
        sections,
    }
}
