//! C04 — a rewrite rule is sound when its matcher accepts and a no-op when it rejects.

use super::common::*;
use super::rules::{Rule, ALL_RULES};
use crate::engine::{catch, Ctx, Obs, PropertyDef, Section};
use crate::gen::diag::{
    diag_spec, BndSpec, DiagParams, DiagSpec, Palette, ScalarSpec, SpiderSpec, WireSpec,
};
use crate::gen::plant::{any_rule_plant, planted_spec, star_spec, PlantedSpec, StarSpec};
use crate::oracle::diag::{build, snapshot, Diag, IdPlan};
use quizx::graph::{GraphLike, V};

/// Snapshot used for "bit-for-bit unchanged": everything observable through the public interface.
fn observable<G: GraphLike>(g: &G) -> String {
    let mut vs: Vec<V> = g.vertices().collect();
    vs.sort();
    let mut es: Vec<_> = g.edges().collect();
    es.sort();
    let vd: Vec<String> = vs
        .iter()
        .map(|&v| format!("{v}:{:?}", g.vertex_data(v)))
        .collect();
    let mut fs: Vec<String> = g
        .scalar_factors()
        .map(|(e, s)| format!("{e:?}=>{s:?}"))
        .collect();
    fs.sort();
    format!(
        "{vd:?}|{es:?}|{:?}|{:?}|{:?}|{fs:?}|{}|{}",
        g.inputs(),
        g.outputs(),
        g.scalar(),
        g.num_vertices(),
        g.num_edges()
    )
}

pub fn arg_ids<G: GraphLike>(g: &G) -> Vec<V> {
    let mut vs: Vec<V> = g.vertices().collect();
    vs.sort();
    let max = vs.last().copied().map(|m| m + 1).unwrap_or(0);
    // a hole left by a deletion, if any
    if let Some(h) = (0..max).find(|h| !vs.contains(h)) {
        vs.push(h);
    }
    vs.push(max);
    vs.push(max + 9);
    vs
}

pub fn check_rules_on<G: GraphLike + PartialEq>(
    d: &Diag,
    plan: &IdPlan,
    before: &Truth,
    backend: &str,
    rules: &[Rule],
    obs: &mut Obs,
) -> Result<(), String> {
    let (g, _) = build::<G>(d, plan);
    let ids = arg_ids(&g);
    let obs_before = observable(&g);
    for &rule in rules {
        let pairs: Vec<(V, V)> = if rule.arity() == 1 {
            ids.iter().map(|&v| (v, v)).collect()
        } else {
            ids.iter()
                .flat_map(|&a| ids.iter().map(move |&b| (a, b)))
                .collect()
        };
        for (v0, v1) in pairs {
            let what = || format!("{backend}: {}({v0},{v1})", rule.name());
            let accepted = catch(|| rule.check(&g, v0, v1))
                .map_err(|p| format!("{}: check panicked: {p}", what()))?;
            if accepted {
                obs.class(rule.accept_class());
                obs.nontrivial_key((rule as u64) << 32 | (v0 as u64) << 16 | v1 as u64);
                let mut h = g.clone();
                catch(|| rule.unchecked(&mut h, v0, v1)).map_err(|p| {
                    format!("{}: matcher accepted but the rule panicked: {p}", what())
                })?;
                let after = match graph_truth(&h) {
                    GraphTruth::Ok(t) => t,
                    GraphTruth::TooBig => {
                        obs.skip("oracle-too-big");
                        continue;
                    }
                    GraphTruth::Malformed(m) => {
                        return Err(format!(
                            "{}: matcher accepted but the result is not a well-formed diagram: {m}",
                            what()
                        ))
                    }
                };
                same_truth(before, &after, REL_TOL).map_err(|e| {
                    format!(
                        "{}: matcher accepted but the rule changed the linear map: {e}",
                        what()
                    )
                })?;
                let mut h2 = g.clone();
                let r = catch(|| rule.checked(&mut h2, v0, v1))
                    .map_err(|p| format!("{}: checked form panicked: {p}", what()))?;
                if r == Some(false) {
                    return Err(format!(
                        "{}: matcher accepted but the checked form returned false",
                        what()
                    ));
                }
            } else {
                let mut h = g.clone();
                let r = catch(|| rule.checked(&mut h, v0, v1)).map_err(|p| {
                    format!("{}: matcher rejected but the checked form panicked: {p}", what())
                })?;
                if r == Some(true) {
                    return Err(format!(
                        "{}: matcher rejected but the checked form returned true",
                        what()
                    ));
                }
                if r.is_some() {
                    if h != g {
                        return Err(format!(
                            "{}: matcher rejected but the checked form changed the graph (backend equality)",
                            what()
                        ));
                    }
                    if observable(&h) != obs_before {
                        return Err(format!(
                            "{}: matcher rejected but the checked form changed the graph (observable state)",
                            what()
                        ));
                    }
                }
            }
        }
    }
    // a rewrite walk: up to 6 accepted rule applications one after the other on the same object
    // (the choice among the accepted matches is a function of the diagram), the map compared
    // after every step - states that only arise in the middle of a rewrite sequence
    {
        let mut w = g.clone();
        let mut salt = crate::engine::mix(d.verts.len() as u64 * 131 + d.edges.len() as u64, obs_before.len() as u64);
        let mut trail: Vec<String> = vec![];
        for step in 0..6 {
            let ids = arg_ids(&w);
            let mut matches: Vec<(Rule, V, V)> = vec![];
            for &rule in rules {
                for &a in &ids {
                    if rule.arity() == 1 {
                        if catch(|| rule.check(&w, a, a)).unwrap_or(false) {
                            matches.push((rule, a, a));
                        }
                    } else {
                        for &b in &ids {
                            if catch(|| rule.check(&w, a, b)).unwrap_or(false) {
                                matches.push((rule, a, b));
                            }
                        }
                    }
                }
            }
            if matches.is_empty() {
                break;
            }
            salt = crate::engine::mix(salt, step as u64 + 1);
            let (rule, v0, v1) = matches[(salt % matches.len() as u64) as usize];
            trail.push(format!("{}({v0},{v1})", rule.name()));
            let what = format!("{backend}: rewrite walk {}", trail.join(" ; "));
            let r = catch(|| rule.checked(&mut w, v0, v1)).map_err(|p| format!("{what}: the last step panicked: {p}"))?;
            if r == Some(false) {
                return Err(format!("{what}: matcher accepted but the checked form returned false"));
            }
            match graph_truth(&w) {
                GraphTruth::Ok(t) => same_truth(before, &t, REL_TOL).map_err(|e| format!("{what}: the last step changed the linear map: {e}"))?,
                GraphTruth::TooBig => {
                    obs.skip("oracle-too-big");
                    break;
                }
                GraphTruth::Malformed(m) => return Err(format!("{what}: the result is not a well-formed diagram: {m}")),
            }
            if step >= 2 {
                obs.class("walk>=3-steps");
            }
        }
    }
    Ok(())
}

fn check_diag(spec: &DiagSpec, obs: &mut Obs) -> Result<(), String> {
    check_model(&spec.to_diag(), &spec.plan, obs)
}

fn check_planted(spec: &PlantedSpec, obs: &mut Obs) -> Result<(), String> {
    check_model(&spec.to_diag(), &spec.host.plan, obs)
}

/// high-degree hosts: rules are tried on the pairs that involve a hub (vertices 0 and 1) and on
/// every single vertex
fn check_star(spec: &StarSpec, obs: &mut Obs) -> Result<(), String> {
    let d = spec.to_diag();
    let before = match truth_of(&d) {
        Ok(t) => t,
        Err(crate::oracle::zxeval::EvalErr::TooBig) => {
            obs.skip("oracle-too-big");
            return Ok(());
        }
        Err(e) => panic!("generator produced a diagram the oracle rejects: {e:?}"),
    };
    let deg0 = d.degree(0) as i64;
    let deg1 = d.degree(1) as i64;
    obs.class_if((deg0 - 2) * (deg1 - 2) >= 126, "sqrt2-exponent>=126");
    fn go<G: GraphLike + PartialEq>(d: &Diag, before: &Truth, backend: &str, obs: &mut Obs) -> Result<(), String> {
        let (g, ids) = build::<G>(d, &IdPlan::default());
        let hubs = [ids[0], ids[1]];
        let all = arg_ids(&g);
        let mut pairs: Vec<(V, V)> = vec![];
        for &h in &hubs {
            for &v in &all {
                pairs.push((h, v));
                pairs.push((v, h));
            }
        }
        pairs.sort();
        pairs.dedup();
        for &rule in ALL_RULES.iter() {
            let args: Vec<(V, V)> = if rule.arity() == 1 {
                all.iter().map(|&v| (v, v)).collect()
            } else {
                pairs.clone()
            };
            for (v0, v1) in args {
                let what = || format!("{backend}: {}({v0},{v1})", rule.name());
                let accepted = catch(|| rule.check(&g, v0, v1))
                    .map_err(|p| format!("{}: check panicked: {p}", what()))?;
                if !accepted {
                    continue;
                }
                obs.class(rule.accept_class());
                obs.nontrivial_key((rule as u64) << 32 | (v0 as u64) << 16 | v1 as u64);
                let mut h = g.clone();
                catch(|| rule.unchecked(&mut h, v0, v1))
                    .map_err(|p| format!("{}: matcher accepted but the rule panicked: {p}", what()))?;
                let after = match graph_truth(&h) {
                    GraphTruth::Ok(t) => t,
                    GraphTruth::TooBig => {
                        obs.skip("oracle-too-big");
                        continue;
                    }
                    GraphTruth::Malformed(m) => {
                        return Err(format!("{}: matcher accepted but the result is not a well-formed diagram: {m}", what()))
                    }
                };
                same_truth(before, &after, REL_TOL)
                    .map_err(|e| format!("{}: matcher accepted but the rule changed the linear map: {e}", what()))?;
            }
        }
        Ok(())
    }
    go::<quizx::vec_graph::Graph>(&d, &before, "vec", obs)?;
    go::<quizx::hash_graph::Graph>(&d, &before, "hash", obs)?;
    obs.classes.sort();
    obs.classes.dedup();
    Ok(())
}

fn check_model(d: &Diag, plan: &IdPlan, obs: &mut Obs) -> Result<(), String> {
    let d = d.clone();
    let before = match truth_of(&d) {
        Ok(t) => t,
        Err(crate::oracle::zxeval::EvalErr::TooBig) => {
            obs.skip("oracle-too-big");
            return Ok(());
        }
        Err(e) => panic!("generator produced a diagram the oracle rejects: {e:?}"),
    };
    // sanity: the snapshot of the built graph is the model
    check_rules_on::<quizx::vec_graph::Graph>(&d, plan, &before, "vec", &ALL_RULES, obs)?;
    check_rules_on::<quizx::hash_graph::Graph>(&d, plan, &before, "hash", &ALL_RULES, obs)?;
    obs.classes.sort();
    obs.classes.dedup();
    let _ = snapshot::<quizx::vec_graph::Graph>;
    Ok(())
}

// ------------------------------------------------------------------------------------------
// bounded-exhaustive enumeration of small diagrams

const PHASES6: [(i64, i64); 6] = [(0, 1), (1, 4), (1, 2), (1, 1), (-1, 2), (3, 4)];
const PHASES4: [(i64, i64); 4] = [(0, 1), (1, 4), (1, 2), (1, 1)];

/// All diagrams with exactly `k` spiders: every type, phase from `phases`, every N/H/absent edge
/// pattern, and 0..=2 boundaries (outputs; the first may instead be an input) attached in every
/// way (unordered), plus optionally one boundary-boundary wire.
fn enumerate_k(k: usize, phases: &'static [(i64, i64)]) -> Box<dyn Iterator<Item = DiagSpec>> {
    let nty = 2 * phases.len();
    let nsp = nty.pow(k as u32);
    let npairs = k * k.saturating_sub(1) / 2;
    let nedge = 3usize.pow(npairs as u32);
    // boundary option: (attach spider, h)
    let bopts: Vec<(usize, bool)> = (0..k).flat_map(|s| [(s, false), (s, true)]).collect();
    let mut bsets: Vec<Vec<(usize, bool)>> = vec![vec![]];
    for i in 0..bopts.len() {
        bsets.push(vec![bopts[i]]);
        for j in i..bopts.len() {
            bsets.push(vec![bopts[i], bopts[j]]);
        }
    }
    let attach_raw = move |s: usize| -> u16 {
        // inverse of the monotone index map: smallest raw with idx(raw,k)==s
        (((s << 16) + k - 1) / k.max(1)) as u16
    };
    let it = (0..nsp).flat_map(move |si| {
        let bsets = bsets.clone();
        (0..nedge).flat_map(move |ei| {
            let bsets = bsets.clone();
            (0..bsets.len()).flat_map(move |bi| {
                let bs = bsets[bi].clone();
                // first boundary as input or output
                let dirs: Vec<bool> = if bs.is_empty() { vec![false] } else { vec![false, true] };
                dirs.into_iter().map(move |first_in| {
                    let mut spiders = vec![];
                    let mut x = si;
                    for _ in 0..k {
                        let t = x % nty;
                        x /= nty;
                        spiders.push(SpiderSpec {
                            x: t % 2 == 1,
                            phase: phases[t / 2],
                            vars: vec![],
                        });
                    }
                    let mut edges = vec![];
                    let mut e = ei;
                    for a in 0..k {
                        for b in (a + 1)..k {
                            let t = e % 3;
                            e /= 3;
                            if t > 0 {
                                edges.push((attach_raw(a), attach_raw(b), t == 2));
                            }
                        }
                    }
                    let bnds = bs
                        .iter()
                        .enumerate()
                        .map(|(i, &(s, h))| BndSpec {
                            attach: attach_raw(s),
                            h,
                            input: i == 0 && first_in,
                        })
                        .collect();
                    DiagSpec {
                        spiders,
                        edges,
                        bnds,
                        wires: vec![],
                        scalar: ScalarSpec::Mono(0, 0),
                        plan: IdPlan::default(),
                    }
                })
            })
        })
    });
    Box::new(it)
}

fn enumerate_small(max_k: usize, shard: usize, nshards: usize) -> Box<dyn Iterator<Item = DiagSpec>> {
    let mut its: Vec<Box<dyn Iterator<Item = DiagSpec>>> = vec![];
    // k = 0: only wires
    let wires0: Vec<DiagSpec> = (0..3)
        .map(|w| DiagSpec {
            spiders: vec![],
            edges: vec![],
            bnds: vec![],
            wires: match w {
                0 => vec![],
                1 => vec![WireSpec { h: false, dirs: 0 }],
                _ => vec![WireSpec { h: true, dirs: 0 }],
            },
            scalar: ScalarSpec::Mono(0, 0),
            plan: IdPlan::default(),
        })
        .collect();
    its.push(Box::new(wires0.into_iter()));
    for k in 1..=max_k {
        let phases: &'static [(i64, i64)] = if k <= 2 { &PHASES6 } else { &PHASES4 };
        its.push(enumerate_k(k, phases));
    }
    Box::new(
        its.into_iter()
            .flatten()
            .enumerate()
            .filter(move |(i, _)| i % nshards == shard)
            .map(|(_, d)| d),
    )
}

pub fn def(ctx: &Ctx) -> PropertyDef {
    let t = ctx.tier;
    let max_k = t.pick(2, 3);
    let sections = vec![
        Section::enumerate(
            "exhaustive-small",
            if max_k == 2 {
                "all diagrams with <=2 spiders: types {Z,X} x phases {0,1/4,1/2,1,-1/2,3/4}, every N/H/absent edge, 0..2 boundaries attached in every way (N or H; first as input or output); all rules x all argument tuples incl. missing ids"
            } else {
                "all diagrams with <=2 spiders (6 phases) and with 3 spiders (phases {0,1/4,1/2,1}): types {Z,X}, every N/H/absent edge pattern, 0..2 boundaries attached in every way; all rules x all argument tuples incl. missing ids"
            },
            move |shard, n| enumerate_small(max_k, shard, n),
            check_diag,
        ),
        Section::random(
            "random-general",
            ctx.cases(1500, 30000),
            move || diag_spec(DiagParams::general(t.pick(6, 8), 3, Palette::Exact)),
            check_diag,
        ),
        Section::random(
            "random-graphlike",
            ctx.cases(1500, 30000),
            move || {
                let mut p = DiagParams::graph_like(t.pick(7, 9), 3, Palette::Exact);
                p.allow_bnd_h = true;
                diag_spec(p)
            },
            check_diag,
        ),
        Section::random(
            "planted",
            ctx.cases(2000, 40000),
            move || {
                let mut p = DiagParams::graph_like(t.pick(4, 6), 2, Palette::Exact);
                p.allow_bnd_h = true;
                planted_spec(p, any_rule_plant(Palette::Exact), 2)
            },
            check_planted,
        ),
        Section::random(
            "high-degree",
            ctx.cases(16, 500),
            move || star_spec(t.pick(14, 16)),
            check_star,
        ),
    ];
    PropertyDef {
        id: "C04",
        rule: "every primitive rule (15 matchers) x every vertex / ordered vertex pair (incl. equal vertices, boundaries, a deleted id, max+1, max+9) on every generated diagram, both backends. Accept => X_unchecked on a clone must not panic, result well-formed, harness evaluator unchanged (exact), checked form true. Reject => checked form false and graph equal (backend == and full observable snapshot). Non-trivial = a matcher accepted; distinct by (diagram, rule, arguments).",
        assumptions: vec![
            "harness evaluator (see selftest)",
            "check_gen_pivot_reduce has no checked form of its own; only its accept clause is tested (with gen_pivot_unchecked, as simplify.rs uses it)",
        ],
        sections,
    }
}
