//! C07 — graph scalars: exact ring arithmetic, honest approx flag, faithful conversions.

use super::common::*;
use crate::engine::{Ctx, Obs, PropertyDef, Section};
use crate::oracle::diag::{libm_ldexp, to_qphase};
use approx::AbsDiffEq;
use num::bigint::{BigInt, Sign};
use num::complex::Complex64;
use num::{One, Signed, Zero};
use proptest::prelude::*;
use quizx::scalar::{Dyadic, FromPhase, Scalar4, Sqrt2};
use serde::{Deserialize, Serialize};
use std::cmp::Ordering;

// ------------------------------------------------------------------------------------------
// big dyadic model

#[derive(Clone, Debug, PartialEq, Eq)]
pub struct BD {
    pub m: BigInt,
    pub e: i64,
}

impl BD {
    pub fn new(m: BigInt, e: i64) -> BD {
        let mut b = BD { m, e };
        b.norm();
        b
    }
    pub fn zero() -> BD {
        BD {
            m: BigInt::zero(),
            e: 0,
        }
    }
    pub fn int(i: i64) -> BD {
        BD::new(BigInt::from(i), 0)
    }
    fn norm(&mut self) {
        if self.m.is_zero() {
            self.e = 0;
            return;
        }
        let tz = self.m.trailing_zeros().unwrap_or(0);
        if tz > 0 {
            self.m >>= tz as usize;
            self.e += tz as i64;
        }
    }
    pub fn is_zero(&self) -> bool {
        self.m.is_zero()
    }
    pub fn add(&self, o: &BD) -> BD {
        if self.is_zero() {
            return o.clone();
        }
        if o.is_zero() {
            return self.clone();
        }
        let e = self.e.min(o.e);
        let a = &self.m << ((self.e - e) as usize);
        let b = &o.m << ((o.e - e) as usize);
        BD::new(a + b, e)
    }
    pub fn neg(&self) -> BD {
        BD {
            m: -&self.m,
            e: self.e,
        }
    }
    pub fn sub(&self, o: &BD) -> BD {
        self.add(&o.neg())
    }
    pub fn mul(&self, o: &BD) -> BD {
        BD::new(&self.m * &o.m, self.e + o.e)
    }
    pub fn cmp(&self, o: &BD) -> Ordering {
        let d = self.sub(o);
        match d.m.sign() {
            Sign::Minus => Ordering::Less,
            Sign::NoSign => Ordering::Equal,
            Sign::Plus => Ordering::Greater,
        }
    }
    pub fn abs(&self) -> BD {
        BD {
            m: self.m.abs(),
            e: self.e,
        }
    }
    /// from the raw parts of a quizx dyadic
    pub fn from_raw(sign: bool, exp: i32, val: u64) -> BD {
        let m = BigInt::from(val);
        BD::new(if sign { -m } else { m }, exp as i64)
    }
    /// from an f64 exactly
    pub fn from_f64(x: f64) -> BD {
        if x == 0.0 {
            return BD::zero();
        }
        let bits = x.to_bits();
        let sign = bits >> 63 == 1;
        let expo = ((bits >> 52) & 0x7ff) as i64;
        let frac = bits & ((1u64 << 52) - 1);
        let (m, e) = if expo == 0 {
            (frac, -1074)
        } else {
            (frac | (1u64 << 52), expo - 1075)
        };
        let mm = BigInt::from(m);
        BD::new(if sign { -mm } else { mm }, e)
    }
    /// value * 2^(-scale) as f64 (value must be moderate after scaling)
    pub fn to_f64_scaled(&self, scale: i64) -> f64 {
        if self.is_zero() {
            return 0.0;
        }
        // take the top 64 bits
        let bits = self.m.bits() as i64;
        let shift = (bits - 64).max(0);
        let top: BigInt = &self.m >> (shift as usize);
        let (sign, digits) = top.to_u64_digits();
        let v = digits.first().copied().unwrap_or(0) as f64;
        let v = libm_ldexp(v, (self.e + shift - scale) as i32);
        if sign == Sign::Minus {
            -v
        } else {
            v
        }
    }
    /// floor(log2 |value|) + 1, i.e. value < 2^top
    pub fn top(&self) -> i64 {
        self.m.bits() as i64 + self.e
    }
}

pub type BS = [BD; 4];

fn bs_zero() -> BS {
    [BD::zero(), BD::zero(), BD::zero(), BD::zero()]
}
fn bs_add(a: &BS, b: &BS) -> BS {
    [a[0].add(&b[0]), a[1].add(&b[1]), a[2].add(&b[2]), a[3].add(&b[3])]
}
fn bs_sub(a: &BS, b: &BS) -> BS {
    [a[0].sub(&b[0]), a[1].sub(&b[1]), a[2].sub(&b[2]), a[3].sub(&b[3])]
}
fn bs_mul(a: &BS, b: &BS) -> BS {
    let mut r = bs_zero();
    for i in 0..4 {
        for j in 0..4 {
            let p = a[i].mul(&b[j]);
            let k = i + j;
            if k < 4 {
                r[k] = r[k].add(&p);
            } else {
                r[k - 4] = r[k - 4].sub(&p);
            }
        }
    }
    r
}
fn bs_conj(a: &BS) -> BS {
    [a[0].clone(), a[3].neg(), a[2].neg(), a[1].neg()]
}
fn bs_omega(k: i64) -> BS {
    let k = k.rem_euclid(8) as usize;
    let mut r = bs_zero();
    if k < 4 {
        r[k] = BD::int(1);
    } else {
        r[k - 4] = BD::int(-1);
    }
    r
}
fn bs_sqrt2_pow(p: i64) -> BS {
    let mut r = bs_zero();
    if p.rem_euclid(2) == 0 {
        r[0] = BD::new(BigInt::one(), p.div_euclid(2));
    } else {
        r[1] = BD::new(BigInt::one(), p.div_euclid(2));
        r[3] = BD::new(-BigInt::one(), p.div_euclid(2));
    }
    r
}
fn bs_one() -> BS {
    bs_omega(0)
}
/// is the value omega^k sqrt2^p ?
fn bs_phase_pow(a: &BS) -> Option<(i64, i64)> {
    for k in 0..8 {
        let r = bs_mul(a, &bs_omega(-k));
        // real positive power of sqrt2: [2^j,0,0,0] or [0,2^j,0,-2^j]
        if r[1].is_zero() && r[2].is_zero() && r[3].is_zero() && r[0].m == BigInt::one() {
            return Some((k, 2 * r[0].e));
        }
        if r[0].is_zero()
            && r[2].is_zero()
            && r[1].m == BigInt::one()
            && r[3].m == -BigInt::one()
            && r[1].e == r[3].e
        {
            return Some((k, 2 * r[1].e + 1));
        }
    }
    None
}

// ------------------------------------------------------------------------------------------
// expression trees

#[derive(Clone, Debug, Serialize, Deserialize)]
pub enum DE {
    New(i64, i32),
    F(f64),
    Add(Box<DE>, Box<DE>),
    Sub(Box<DE>, Box<DE>),
    Mul(Box<DE>, Box<DE>),
    Neg(Box<DE>),
}

#[derive(Clone, Debug, Serialize, Deserialize)]
pub enum SE {
    New([i64; 4], i32),
    Int(i64),
    Phase(i64, i64),
    OnePlus(i64, i64),
    Sqrt2Pow(i32),
    Real(f64),
    Complex(f64, f64),
    Add(Box<SE>, Box<SE>),
    Sub(Box<SE>, Box<SE>),
    Mul(Box<SE>, Box<SE>),
    Conj(Box<SE>),
    MulSqrt2(Box<SE>, i32),
    MulPhase(Box<SE>, (i64, i64)),
    /// `Iterator::sum` / `Iterator::product` over the terms, in order
    SumOf(Vec<SE>),
    ProductOf(Vec<SE>),
}

impl DE {
    fn q(&self) -> Dyadic {
        match self {
            DE::New(v, e) => Dyadic::new(*v, *e),
            DE::F(x) => Dyadic::from(*x),
            DE::Add(a, b) => a.q() + b.q(),
            DE::Sub(a, b) => a.q() - b.q(),
            DE::Mul(a, b) => a.q() * b.q(),
            DE::Neg(a) => -a.q(),
        }
    }
    /// exact value (a float leaf denotes the float's exact value)
    fn m(&self) -> Option<BD> {
        Some(match self {
            DE::New(v, e) => BD::new(BigInt::from(*v), *e as i64),
            DE::F(x) => BD::from_f64(*x),
            DE::Add(a, b) => a.m()?.add(&b.m()?),
            DE::Sub(a, b) => a.m()?.sub(&b.m()?),
            DE::Mul(a, b) => a.m()?.mul(&b.m()?),
            DE::Neg(a) => a.m()?.neg(),
        })
    }
    fn ops(&self) -> usize {
        match self {
            DE::New(..) | DE::F(_) => 0,
            DE::Add(a, b) | DE::Sub(a, b) | DE::Mul(a, b) => 1 + a.ops() + b.ops(),
            DE::Neg(a) => 1 + a.ops(),
        }
    }
}

fn leaf_value(s: &Scalar4) -> BS {
    let c = s.verif_coeffs();
    [raw_bd(&c[0]).0, raw_bd(&c[1]).0, raw_bd(&c[2]).0, raw_bd(&c[3]).0]
}

fn quarter(n: i64, d: i64) -> Option<i64> {
    if d != 0 && (4 * n) % d == 0 {
        Some((4 * n / d).rem_euclid(8))
    } else {
        None
    }
}

/// chooses among the equivalent public spellings of an operation (owned / borrowed operands,
/// compound assignment, Sum / Product, convenience methods, the From impls); seed 0 = always the
/// first spelling
pub struct Sel(pub u64, pub u64);
impl Sel {
    fn next(&mut self, n: u64) -> u64 {
        if self.0 == 0 {
            0
        } else {
            self.1 += 1;
            crate::engine::mix(self.0, self.1) % n
        }
    }
}

impl DE {
    fn qv(&self, sel: &mut Sel) -> Dyadic {
        match self {
            DE::New(v, e) => {
                if *e == 0 && sel.next(2) == 1 {
                    Dyadic::from(*v)
                } else {
                    Dyadic::new(*v, *e)
                }
            }
            DE::F(x) => Dyadic::from(*x),
            DE::Add(a, b) => {
                let (x, y) = (a.qv(sel), b.qv(sel));
                if sel.next(2) == 1 {
                    let mut z = x;
                    z += y;
                    z
                } else {
                    x + y
                }
            }
            DE::Sub(a, b) => {
                let (x, y) = (a.qv(sel), b.qv(sel));
                if sel.next(2) == 1 {
                    let mut z = x;
                    z -= y;
                    z
                } else {
                    x - y
                }
            }
            DE::Mul(a, b) => {
                let (x, y) = (a.qv(sel), b.qv(sel));
                if sel.next(2) == 1 {
                    let mut z = x;
                    z *= y;
                    z
                } else {
                    x * y
                }
            }
            DE::Neg(a) => -a.qv(sel),
        }
    }
}

impl SE {
    pub fn qv(&self, sel: &mut Sel) -> Scalar4 {
        use num::{One, Zero};
        match self {
            SE::New(c, e) => {
                if *e == 0 && sel.next(2) == 1 {
                    Scalar4::from(*c)
                } else {
                    Scalar4::new(*c, *e)
                }
            }
            SE::Int(i) => match sel.next(2) {
                1 => Scalar4::new([*i, 0, 0, 0], 0),
                _ => Scalar4::from(*i),
            },
            SE::Phase(n, d) => {
                let p = to_qphase((*n, *d));
                match sel.next(3) {
                    1 => Scalar4::from(p),
                    2 if p.is_one() => Scalar4::minus_one(),
                    2 => {
                        let mut s = Scalar4::one();
                        s.mul_phase(p);
                        s
                    }
                    _ => Scalar4::from_phase(p),
                }
            }
            SE::OnePlus(n, d) => {
                let p = to_qphase((*n, *d));
                match sel.next(3) {
                    1 => {
                        let mut s = Scalar4::one();
                        s.mul_one_plus_phase(p);
                        s
                    }
                    2 => Scalar4::one() + Scalar4::from_phase(p),
                    _ => Scalar4::one_plus_phase(p),
                }
            }
            SE::Sqrt2Pow(p) => match sel.next(2) {
                1 => {
                    let mut s = Scalar4::one();
                    s.mul_sqrt2_pow(*p);
                    s
                }
                _ => Scalar4::sqrt2_pow(*p),
            },
            SE::Real(x) => match sel.next(3) {
                1 => Scalar4::from(*x),
                2 => Scalar4::from([*x, 0.0, 0.0, 0.0]),
                _ => Scalar4::real(*x),
            },
            SE::Complex(a, b) => match sel.next(3) {
                1 => Scalar4::from(num::Complex::new(*a, *b)),
                2 => Scalar4::from([*a, 0.0, *b, 0.0]),
                _ => Scalar4::complex(*a, *b),
            },
            SE::Add(a, b) => {
                let (x, y) = (a.qv(sel), b.qv(sel));
                match sel.next(7) {
                    1 => &x + &y,
                    2 => &x + y,
                    3 => x + &y,
                    4 => {
                        let mut z = x;
                        z += y;
                        z
                    }
                    5 => {
                        let mut z = x;
                        z += &y;
                        z
                    }
                    6 => [x, y].into_iter().sum(),
                    _ => x + y,
                }
            }
            SE::Sub(a, b) => {
                let (x, y) = (a.qv(sel), b.qv(sel));
                match sel.next(6) {
                    1 => &x - &y,
                    2 => &x - y,
                    3 => x - &y,
                    4 => {
                        let mut z = x;
                        z -= y;
                        z
                    }
                    5 => {
                        let mut z = x;
                        z -= &y;
                        z
                    }
                    _ => x - y,
                }
            }
            SE::Mul(a, b) => {
                let (x, y) = (a.qv(sel), b.qv(sel));
                match sel.next(7) {
                    1 => &x * &y,
                    2 => &x * y,
                    3 => x * &y,
                    4 => {
                        let mut z = x;
                        z *= y;
                        z
                    }
                    5 => {
                        let mut z = x;
                        z *= &y;
                        z
                    }
                    6 => [x, y].into_iter().product(),
                    _ => x * y,
                }
            }
            SE::Conj(a) => a.qv(sel).conj(),
            SE::SumOf(ts) => {
                let vs: Vec<Scalar4> = ts.iter().map(|t| t.qv(sel)).collect();
                match sel.next(3) {
                    // a chain of +, from the first term or from zero
                    1 => vs.iter().skip(1).fold(vs.first().copied().unwrap_or(Scalar4::zero()), |a, b| a + *b),
                    2 => vs.iter().fold(Scalar4::zero(), |a, b| &a + b),
                    _ => vs.into_iter().sum(),
                }
            }
            SE::ProductOf(ts) => {
                let vs: Vec<Scalar4> = ts.iter().map(|t| t.qv(sel)).collect();
                match sel.next(3) {
                    1 => vs.iter().skip(1).fold(vs.first().copied().unwrap_or(Scalar4::one()), |a, b| a * *b),
                    2 => vs.iter().fold(Scalar4::one(), |a, b| &a * b),
                    _ => vs.into_iter().product(),
                }
            }
            SE::MulSqrt2(a, p) => {
                let mut s = a.qv(sel);
                match sel.next(3) {
                    1 => s * Scalar4::sqrt2_pow(*p),
                    2 => &s * &Scalar4::sqrt2_pow(*p),
                    _ => {
                        s.mul_sqrt2_pow(*p);
                        s
                    }
                }
            }
            SE::MulPhase(a, p) => {
                let mut s = a.qv(sel);
                let ph = to_qphase(*p);
                match sel.next(3) {
                    1 => s * Scalar4::from(ph),
                    2 => {
                        s *= Scalar4::from_phase(ph);
                        s
                    }
                    _ => {
                        s.mul_phase(ph);
                        s
                    }
                }
            }
        }
    }
    fn q(&self) -> Scalar4 {
        match self {
            SE::New(c, e) => Scalar4::new(*c, *e),
            SE::Int(i) => Scalar4::from(*i),
            SE::Phase(n, d) => Scalar4::from_phase(to_qphase((*n, *d))),
            SE::OnePlus(n, d) => Scalar4::one_plus_phase(to_qphase((*n, *d))),
            SE::Sqrt2Pow(p) => Scalar4::sqrt2_pow(*p),
            SE::Real(x) => Scalar4::real(*x),
            SE::Complex(a, b) => Scalar4::complex(*a, *b),
            SE::Add(a, b) => a.q() + b.q(),
            SE::Sub(a, b) => a.q() - b.q(),
            SE::Mul(a, b) => a.q() * b.q(),
            SE::Conj(a) => a.q().conj(),
            SE::SumOf(ts) => ts.iter().map(|t| t.q()).sum(),
            SE::ProductOf(ts) => ts.iter().map(|t| t.q()).product(),
            SE::MulSqrt2(a, p) => {
                let mut s = a.q();
                s.mul_sqrt2_pow(*p);
                s
            }
            SE::MulPhase(a, p) => {
                let mut s = a.q();
                s.mul_phase(to_qphase(*p));
                s
            }
        }
    }
    fn m(&self) -> Option<BS> {
        Some(match self {
            SE::New(c, e) => [
                BD::new(BigInt::from(c[0]), *e as i64),
                BD::new(BigInt::from(c[1]), *e as i64),
                BD::new(BigInt::from(c[2]), *e as i64),
                BD::new(BigInt::from(c[3]), *e as i64),
            ],
            SE::Int(i) => {
                let mut r = bs_zero();
                r[0] = BD::int(*i);
                r
            }
            SE::Phase(n, d) => match quarter(*n, *d) {
                Some(k) => bs_omega(k),
                // a general phase is stored as a pair of floats: the model takes the stored values
                None => leaf_value(&self.q()),
            },
            SE::OnePlus(n, d) => match quarter(*n, *d) {
                Some(k) => bs_add(&bs_one(), &bs_omega(k)),
                None => leaf_value(&self.q()),
            },
            SE::Sqrt2Pow(p) => bs_sqrt2_pow(*p as i64),
            SE::Real(x) => [BD::from_f64(*x), BD::zero(), BD::zero(), BD::zero()],
            SE::Complex(a, b) => [BD::from_f64(*a), BD::zero(), BD::from_f64(*b), BD::zero()],
            SE::Add(a, b) => bs_add(&a.m()?, &b.m()?),
            SE::Sub(a, b) => bs_sub(&a.m()?, &b.m()?),
            SE::Mul(a, b) => bs_mul(&a.m()?, &b.m()?),
            SE::Conj(a) => bs_conj(&a.m()?),
            SE::SumOf(ts) => {
                let mut acc = bs_zero();
                for t in ts {
                    acc = bs_add(&acc, &t.m()?);
                }
                acc
            }
            SE::ProductOf(ts) => {
                let mut acc = bs_one();
                for t in ts {
                    acc = bs_mul(&acc, &t.m()?);
                }
                acc
            }
            SE::MulSqrt2(a, p) => bs_mul(&a.m()?, &bs_sqrt2_pow(*p as i64)),
            SE::MulPhase(a, p) => match quarter(p.0, p.1) {
                Some(k) => bs_mul(&a.m()?, &bs_omega(k)),
                None => bs_mul(&a.m()?, &leaf_value(&Scalar4::from_phase(to_qphase(*p)))),
            },
        })
    }
    fn ops(&self) -> usize {
        match self {
            SE::Add(a, b) | SE::Sub(a, b) | SE::Mul(a, b) => 1 + a.ops() + b.ops(),
            SE::Conj(a) | SE::MulSqrt2(a, _) | SE::MulPhase(a, _) => 1 + a.ops(),
            SE::SumOf(ts) | SE::ProductOf(ts) => ts.len() + ts.iter().map(|t| t.ops()).sum::<usize>(),
            _ => 0,
        }
    }
}

// ------------------------------------------------------------------------------------------
// strategies

fn mant() -> BoxedStrategy<i64> {
    prop_oneof![
        2 => Just(0i64),
        3 => prop_oneof![Just(1i64), Just(-1i64), Just(2), Just(3), Just(-3), Just(5)],
        3 => (0u32..63, any::<bool>()).prop_map(|(k, s)| if s { -(1i64 << k) } else { 1i64 << k }),
        3 => (1u32..63, any::<bool>(), any::<bool>()).prop_map(|(k, s, p)| {
            let v = (1i64 << k) + if p { 1 } else { -1 };
            if s { -v } else { v }
        }),
        1 => Just(i64::MAX),
        1 => Just(-i64::MAX),
        3 => any::<i64>().prop_map(|v| if v == i64::MIN { 1 } else { v }),
        2 => (-1000i64..1000),
    ]
    .boxed()
}

fn expo() -> BoxedStrategy<i32> {
    prop_oneof![
        4 => Just(0i32),
        3 => -4i32..=4,
        2 => prop::sample::select(vec![-128i32, -127, -65, -64, -63, -62, -1, 1, 62, 63, 64, 65, 127, 128]),
        2 => -70i32..=70,
        1 => -1000i32..=1000,
        // the edges of the f64 range (for 64-bit and for short mantissas)
        1 => prop::sample::select(vec![955i32, 957, 958, 959, 960, 961, 1019, 1020, 1021, 1022, 1023, -960, -1020]),
    ]
    .boxed()
}

fn float() -> BoxedStrategy<f64> {
    prop_oneof![
        2 => -4.0f64..4.0,
        1 => prop::sample::select(vec![0.0f64, -0.0, 1.0, -1.0, 0.5, 0.3, 1e-10, 1e10, 13e-60, -55.13, std::f64::consts::SQRT_2, std::f64::consts::FRAC_1_SQRT_2]),
        1 => (any::<u64>()).prop_map(|b| {
            // moderate exponent, random mantissa
            let frac = b & ((1u64 << 52) - 1);
            let e = 1023 - 40 + ((b >> 52) % 80);
            let s = b >> 63;
            f64::from_bits((s << 63) | (e << 52) | frac)
        }),
    ]
    .boxed()
}

fn de_strategy(depth: u32, with_floats: bool) -> BoxedStrategy<DE> {
    let leaf = if with_floats {
        prop_oneof![
            4 => (mant(), expo()).prop_map(|(v, e)| DE::New(v, e)),
            1 => float().prop_map(DE::F),
        ]
        .boxed()
    } else {
        (mant(), expo()).prop_map(|(v, e)| DE::New(v, e)).boxed()
    };
    leaf.prop_recursive(depth, 24, 2, |inner| {
        prop_oneof![
            3 => (inner.clone(), inner.clone()).prop_map(|(a, b)| DE::Add(Box::new(a), Box::new(b))),
            2 => (inner.clone(), inner.clone()).prop_map(|(a, b)| DE::Sub(Box::new(a), Box::new(b))),
            3 => (inner.clone(), inner.clone()).prop_map(|(a, b)| DE::Mul(Box::new(a), Box::new(b))),
            1 => inner.prop_map(|a| DE::Neg(Box::new(a))),
        ]
    })
    .boxed()
}

fn phase_q() -> BoxedStrategy<(i64, i64)> {
    prop_oneof![
        4 => (-8i64..=8).prop_map(|k| (k, 4)),
        1 => (-9i64..=9, prop::sample::select(vec![3i64, 5, 6, 7, 8, 16])),
    ]
    .boxed()
}

fn se_strategy(depth: u32, with_floats: bool) -> BoxedStrategy<SE> {
    let small = prop::array::uniform4(prop_oneof![3 => Just(0i64), 3 => -3i64..=3, 1 => mant()]);
    let exact_leaf = prop_oneof![
        4 => (small, expo()).prop_map(|(c, e)| SE::New(c, e)),
        1 => mant().prop_map(SE::Int),
        3 => (-8i64..=8).prop_map(|k| SE::Phase(k, 4)),
        2 => (-8i64..=8).prop_map(|k| SE::OnePlus(k, 4)),
        2 => (-40i32..=40).prop_map(SE::Sqrt2Pow),
    ];
    let leaf = if with_floats {
        prop_oneof![
            5 => exact_leaf,
            1 => float().prop_map(SE::Real),
            1 => (float(), float()).prop_map(|(a, b)| SE::Complex(a, b)),
            1 => (-9i64..=9, prop::sample::select(vec![3i64, 5, 6, 7, 8, 16])).prop_map(|(n, d)| SE::Phase(n, d)),
            1 => (-9i64..=9, prop::sample::select(vec![3i64, 5, 6, 7, 8, 16])).prop_map(|(n, d)| SE::OnePlus(n, d)),
        ]
        .boxed()
    } else {
        exact_leaf.boxed()
    };
    // (big + small) - big: the small part is rounded away and an approximate zero (or an
    // approximate remainder) is left whose exact value is `small`
    let rounded_away = (prop::array::uniform4(-3i64..=3), 64i32..200, prop::array::uniform4(-5i64..=5), -3i32..=3).prop_map(|(b, e, c, e2)| {
        let big = SE::New(if b == [0; 4] { [1, 0, 0, 0] } else { b }, e);
        SE::Sub(Box::new(SE::Add(Box::new(big.clone()), Box::new(SE::New(c, e2)))), Box::new(big))
    });
    let leaf = prop_oneof![12 => leaf, 1 => rounded_away].boxed();
    let wf = with_floats;
    leaf.prop_recursive(depth, 20, 4, move |inner| {
        prop_oneof![
            1 => prop::collection::vec(inner.clone(), 1..=4).prop_map(SE::SumOf),
            1 => prop::collection::vec(inner.clone(), 1..=3).prop_map(SE::ProductOf),
            3 => (inner.clone(), inner.clone()).prop_map(|(a, b)| SE::Add(Box::new(a), Box::new(b))),
            2 => (inner.clone(), inner.clone()).prop_map(|(a, b)| SE::Sub(Box::new(a), Box::new(b))),
            4 => (inner.clone(), inner.clone()).prop_map(|(a, b)| SE::Mul(Box::new(a), Box::new(b))),
            1 => inner.clone().prop_map(|a| SE::Conj(Box::new(a))),
            1 => (inner.clone(), -9i32..=9).prop_map(|(a, p)| SE::MulSqrt2(Box::new(a), p)),
            1 => (inner, if wf { phase_q() } else { (-8i64..=8).prop_map(|k| (k, 4)).boxed() })
                .prop_map(|(a, p)| SE::MulPhase(Box::new(a), p)),
        ]
    })
    .boxed()
}

// ------------------------------------------------------------------------------------------
// checks

fn raw_bd(d: &Dyadic) -> (BD, bool) {
    let (s, a, e, v) = d.verif_raw_parts();
    (BD::from_raw(s, e, v), a)
}

fn check_repr(d: &Dyadic) -> Result<(), String> {
    let (s, _, e, v) = d.verif_raw_parts();
    if v == 0 {
        if e != 0 || s {
            return Err(format!("zero is stored with exponent {e} / sign {s}"));
        }
    } else if v >> 63 != 1 {
        return Err(format!("mantissa {v:#x} is not normalised"));
    }
    Ok(())
}

/// complex_value() against the stored coefficients
fn check_complex_value(s: &Scalar4, obs: &mut Obs) -> Result<(), String> {
    let cs = s.verif_coeffs();
    let bds: Vec<BD> = cs.iter().map(|c| raw_bd(c).0).collect();
    let nz: Vec<&BD> = bds.iter().filter(|b| !b.is_zero()).collect();
    if nz.is_empty() {
        let c = guarded("complex_value", || s.complex_value())?;
        if c.re != 0.0 || c.im != 0.0 {
            return Err(format!("complex_value of zero is {c}"));
        }
        return Ok(());
    }
    let top = nz.iter().map(|b| b.top()).max().unwrap();
    let low = nz.iter().map(|b| b.top()).min().unwrap();
    // The conversion is asserted wherever every quantity of the defining formula
    // re = c0 + (c1-c3)/sqrt2, im = c2 + (c1+c3)/sqrt2 is a representable f64 (<= f64::MAX) and no
    // coefficient is so small that it is subnormal relative to nothing else (tops >= -900).
    let f64max = BD::new(BigInt::from((1u64 << 53) - 1), 971);
    let d13 = bds[1].sub(&bds[3]);
    let s13 = bds[1].add(&bds[3]);
    if [&bds[0], &bds[2], &d13, &s13]
        .iter()
        .any(|p| p.abs().cmp(&f64max) == Ordering::Greater)
        || low < -900
    {
        obs.skip("exponent-outside-f64-range");
        return Ok(());
    }
    let f: Vec<f64> = bds.iter().map(|b| b.to_f64_scaled(top)).collect();
    let r = std::f64::consts::FRAC_1_SQRT_2;
    let want = Complex64::new(f[0] + (f[1] - f[3]) * r, f[2] + (f[1] + f[3]) * r);
    // the result itself must be representable, with a margin against the last binade's edge
    if top >= 1000 {
        let room = libm_ldexp(0.999, (1024 - top) as i32);
        if want.re.abs() >= room || want.im.abs() >= room {
            obs.skip("result-exceeds-f64-range");
            return Ok(());
        }
        obs.class("top-of-f64-range");
    }
    let c = guarded("complex_value", || s.complex_value())?;
    if !c.re.is_finite() || !c.im.is_finite() {
        return Err(format!(
            "complex_value() = {c} is not finite although the scalar ({} * 2^{top}) is representable; coefficients {cs:?}",
            want
        ));
    }
    let got = Complex64::new(libm_ldexp(c.re, -top as i32), libm_ldexp(c.im, -top as i32));
    let maxc = f.iter().fold(0.0f64, |a, &x| a.max(x.abs()));
    let err = (got - want).norm();
    if !(err <= 1e-12 * maxc) {
        let odd64 = cs.iter().any(|c| {
            let (_, _, _, v) = c.verif_raw_parts();
            v & 1 == 1
        });
        let msg = format!(
            "complex_value() = {c} but the stored coefficients denote {} * 2^{top} (relative error {:.3e} of the largest coefficient); coefficients {:?}",
            want,
            err / maxc,
            cs
        );
        if odd64 {
            return obs.known("dyadic-f64-odd-64bit-mantissa", msg);
        }
        return Err(msg);
    }
    Ok(())
}

#[derive(Clone, Debug, Serialize, Deserialize)]
pub struct SCase {
    pub a: SE,
    /// 0: b independent; 1: b = a*1; 2: b = a+0; 3: b = a (copy); 4: b = conj(conj(a)); 5: b = a + tiny
    pub variant: u8,
    pub b: SE,
}

fn check_scalar(c: &SCase, obs: &mut Obs) -> Result<(), String> {
    let a = &c.a;
    let b: SE = match c.variant % 6 {
        0 => c.b.clone(),
        1 => SE::Mul(Box::new(a.clone()), Box::new(SE::Int(1))),
        2 => SE::Add(Box::new(SE::New([0; 4], 7)), Box::new(a.clone())),
        3 => a.clone(),
        4 => SE::Conj(Box::new(SE::Conj(Box::new(a.clone())))),
        _ => SE::Add(Box::new(a.clone()), Box::new(SE::New([0, 0, 1, 0], -200))),
    };
    let qa = guarded("scalar expression", || a.q())?;
    let qb = guarded("scalar expression", || b.q())?;
    for s in [&qa, &qb] {
        for d in s.verif_coeffs().iter() {
            check_repr(d)?;
        }
    }
    let ma = a.m();
    let mb = b.m();
    let ops = a.ops();
    let mut classes: Vec<&'static str> = vec![];
    // the same expression through other public spellings of each operation
    if ops >= 1 {
        let seed = crate::engine::mix(c.variant as u64 + 1, ops as u64) | 1;
        let alt = guarded("scalar expression (alternative spellings)", || a.qv(&mut Sel(seed, 0)))?;
        for d in alt.verif_coeffs().iter() {
            check_repr(d)?;
        }
        // (the approx flag may legitimately differ: From<f64> marks its zero coefficients
        // approximate, Scalar4::real does not; only "not flagged => exact" is claimed)
        if !alt.approx() {
            let m = ma.as_ref().expect("model always has a value");
            let cs = alt.verif_coeffs();
            for i in 0..4 {
                let (got, _) = raw_bd(&cs[i]);
                if got != m[i] {
                    return Err(format!(
                        "alternative spellings: coefficient {i} is not flagged approximate but differs from the exact value: stored {:?}, exact {:?}; plain spelling gives {qa:?}",
                        cs[i], m[i]
                    ));
                }
            }
        }
        if alt.approx() || qa.approx() {
            // complex_value() panics beyond f64's exponent range (its documented behaviour)
            let cv = |s: &Scalar4| num::Complex::<f64>::try_from(s).unwrap_or(num::Complex::new(f64::NAN, f64::NAN));
            let (x, y) = (cv(&alt), cv(&qa));
            let scale = x.norm().max(y.norm());
            if x.re.is_finite() && x.im.is_finite() && y.re.is_finite() && y.im.is_finite() && scale > 1e-290 && scale < 1e290 {
                if (x - y).norm() > 1e-12 * scale {
                    return Err(format!("alternative spellings of the same expression give {x}, the plain spelling gives {y}"));
                }
            }
        }
        classes.push("alternative-spellings");
    }
    // (a) exactness
    let mut exact_a = false;
    for (q, m, name) in [(&qa, &ma, "a"), (&qb, &mb, "b")] {
        let approx = q.approx();
        if !approx {
            let Some(m) = m else {
                panic!("model always has a value");
            };
            if name == "a" {
                exact_a = true;
            }
            let cs = q.verif_coeffs();
            for i in 0..4 {
                let (got, _) = raw_bd(&cs[i]);
                if got != m[i] {
                    return Err(format!(
                        "{name}: coefficient {i} is not flagged approximate but differs from the exact value: stored {:?} (raw {:?}), exact {:?}",
                        cs[i],
                        cs[i].verif_raw_parts(),
                        m[i]
                    ));
                }
                if m[i].m.bits() >= 60 {
                    classes.push("mantissa>=60bits");
                }
            }
            let mz = m.iter().all(|x| x.is_zero());
            if q.is_zero() != mz {
                return Err(format!("{name}: is_zero() = {} but the value is {}zero", q.is_zero(), if mz { "" } else { "non-" }));
            }
            if mz && ops >= 1 {
                classes.push("cancellation-to-zero");
            }
            let m1 = *m == bs_one();
            if q.is_one() != m1 {
                return Err(format!("{name}: is_one() = {} but value==1 is {m1}", q.is_one()));
            }
            let want = bs_phase_pow(m);
            let got = guarded("exact_phase_and_sqrt2_pow", || q.exact_phase_and_sqrt2_pow())?;
            let gotn = got.map(|(p, pw)| {
                let r = p.to_rational();
                ((4 * r.numer() / r.denom()).rem_euclid(8), pw as i64)
            });
            if gotn != want {
                return Err(format!(
                    "{name}: exact_phase_and_sqrt2_pow = {got:?} but the value is {}",
                    match want {
                        Some((k, p)) => format!("omega^{k} * sqrt2^{p}"),
                        None => "not of that form".to_string(),
                    }
                ));
            }
            if want.is_some() {
                classes.push("is-phase-times-sqrt2-power");
            }
        } else if m.is_some() {
            classes.push("rounded(approx-flag-set)");
        }
    }
    // equality
    if !qa.approx() && !qb.approx() {
        let (ma, mb) = (ma.as_ref().unwrap(), mb.as_ref().unwrap());
        let eqm = ma == mb;
        if (qa == qb) != eqm {
            return Err(format!(
                "a == b is {} but the exact values are {}equal: a={qa:?} b={qb:?}",
                qa == qb,
                if eqm { "" } else { "not " }
            ));
        }
        if eqm && c.variant % 6 != 3 {
            classes.push("equal-by-different-expressions");
        }
    }
    // (b) conversion
    check_complex_value(&qa, obs)?;
    check_complex_value(&qb, obs)?;
    for cl in &classes {
        obs.class(cl);
    }
    obs.classes.sort();
    obs.classes.dedup();
    if ops >= 3 && exact_a && !classes.is_empty() {
        obs.nontrivial();
    }
    if ops >= 3 && qa.approx() {
        // non-trivial for the conversion clause: a full 64-bit mantissa
        if qa.verif_coeffs().iter().any(|c| c.verif_raw_parts().3 & 1 == 1) {
            obs.class("approx-with-odd-64bit-mantissa");
            obs.nontrivial();
        }
    }
    Ok(())
}

#[derive(Clone, Debug, Serialize, Deserialize)]
pub struct DCase {
    pub a: DE,
    pub b: DE,
    pub eps_exp: i32,
}

fn check_dyadic(c: &DCase, obs: &mut Obs) -> Result<(), String> {
    let qa = guarded("dyadic expression", || c.a.q())?;
    let qb = guarded("dyadic expression", || c.b.q())?;
    check_repr(&qa)?;
    check_repr(&qb)?;
    {
        // compound-assignment spellings perform the same operation
        let alt = guarded("dyadic expression (op-assign spellings)", || c.a.qv(&mut Sel(0x5eed | 1, 0)))?;
        if alt.verif_raw_parts() != qa.verif_raw_parts() {
            return Err(format!(
                "a: the expression evaluated with +=, -=, *= gives {alt:?} (raw {:?}), with +, -, * it gives {qa:?} (raw {:?})",
                alt.verif_raw_parts(),
                qa.verif_raw_parts()
            ));
        }
    }
    let (va, fa) = raw_bd(&qa);
    let (vb, fb) = raw_bd(&qb);
    for (q, v, f, e, name) in [(&qa, &va, fa, &c.a, "a"), (&qb, &vb, fb, &c.b, "b")] {
        if !f {
            match e.m() {
                None => panic!("model always has a value"),
                Some(m) => {
                    if m != *v {
                        return Err(format!(
                            "{name}: result {q:?} (raw {:?}) is not flagged approximate but the exact value is {m:?}",
                            q.verif_raw_parts()
                        ));
                    }
                    if m.m.bits() >= 60 {
                        obs.class("mantissa>=60bits");
                    }
                    if m.is_zero() && e.ops() > 0 {
                        obs.class("cancellation-to-zero");
                    }
                }
            }
        } else if e.m().is_some() {
            obs.class("rounded(approx-flag-set)");
        }
        // f64 conversion of the stored value
        let f64max = BD::new(BigInt::from((1u64 << 53) - 1), 971);
        if !v.is_zero() && v.abs().cmp(&f64max) != Ordering::Greater && v.top() > -900 {
            obs.class_if(v.top() >= 1000, "top-of-f64-range");
            let got = guarded("f64::try_from", || f64::try_from(*q))?;
            match got {
                Err(_) => {
                    return Err(format!(
                        "{name}: f64::try_from({q:?}) fails although the value is about 2^{}",
                        v.top()
                    ))
                }
                Ok(x) => {
                    let top = v.top();
                    let want = v.to_f64_scaled(top);
                    let gots = libm_ldexp(x, -top as i32);
                    if !((gots - want).abs() <= 1e-15 * want.abs().max(f64::MIN_POSITIVE)) {
                        let msg = format!(
                            "{name}: f64::try_from({q:?}) = {x} but the stored value is {want} * 2^{top}"
                        );
                        if q.verif_raw_parts().3 & 1 == 1 {
                            obs.known("dyadic-f64-odd-64bit-mantissa", msg)?;
                        } else {
                            return Err(msg);
                        }
                    }
                }
            }
        }
    }
    // ordering on the stored values
    let want = va.cmp(&vb);
    let got = guarded("Ord::cmp", || qa.cmp(&qb))?;
    if got != want {
        let msg = format!(
            "cmp({qa:?}, {qb:?}) = {got:?} but the stored values compare {want:?} (raw {:?} vs {:?})",
            qa.verif_raw_parts(),
            qb.verif_raw_parts()
        );
        if va.is_zero() != vb.is_zero() {
            return obs.known("dyadic-ord-zero", msg);
        }
        return Err(msg);
    }
    let got2 = qb.cmp(&qa);
    if got2 != want.reverse() {
        return Err(format!("cmp is not antisymmetric on {qa:?}, {qb:?}"));
    }
    if (qa == qb) != (want == Ordering::Equal && fa == fb) {
        // == also compares the approx flag; only the value part is asserted
        if (want == Ordering::Equal) != (qa.abs() == qb.abs() && qa.sign() == qb.sign()) && fa == fb {
            return Err(format!("== disagrees with the stored values on {qa:?}, {qb:?}"));
        }
    }
    // abs_diff_eq
    let eps = Dyadic::new(1, c.eps_exp);
    let epsv = BD::new(BigInt::one(), c.eps_exp as i64);
    let d = va.sub(&vb).abs();
    let r = guarded("abs_diff_eq", || qa.abs_diff_eq(&qb, eps))?;
    let diffq = qa - qb;
    let (dq, _) = raw_bd(&diffq);
    let exact_diff = dq.abs() == d;
    let expect = if exact_diff {
        Some(d.cmp(&epsv) == Ordering::Less)
    } else if d.cmp(&epsv.mul(&BD::int(2))) == Ordering::Greater {
        Some(false)
    } else if d.mul(&BD::int(2)).cmp(&epsv) == Ordering::Less {
        Some(true)
    } else {
        None
    };
    if let Some(ex) = expect {
        if r != ex {
            let msg = format!(
                "abs_diff_eq({qa:?}, {qb:?}, eps=2^{}) = {r} but |a-b| {} eps",
                c.eps_exp,
                if ex { "<" } else { ">=" }
            );
            if d.is_zero() || dq.is_zero() {
                return obs.known("dyadic-ord-zero", msg);
            }
            return Err(msg);
        }
        obs.class_if(ex, "abs-diff-eq:true");
    }
    if c.a.ops() + c.b.ops() >= 3 {
        obs.nontrivial();
    }
    obs.classes.sort();
    obs.classes.dedup();
    Ok(())
}

#[derive(Clone, Debug, Serialize, Deserialize)]
pub struct FCase {
    pub re: f64,
    pub im: f64,
}

fn float_any() -> BoxedStrategy<f64> {
    prop_oneof![
        3 => float(),
        3 => any::<u64>().prop_map(|b| {
            let x = f64::from_bits(b);
            if x.is_finite() { x } else { 1.5 }
        }),
        1 => prop::sample::select(vec![
            f64::MAX, f64::MIN, f64::MIN_POSITIVE, -f64::MIN_POSITIVE, 5e-324, 1e-300, 1e300, 2.2250738585072014e-308 * 4.0,
            f64::EPSILON,
        ]),
    ]
    .boxed()
}

fn check_float(c: &FCase, obs: &mut Obs) -> Result<(), String> {
    for &x in &[c.re, c.im] {
        let d = guarded("Dyadic::from(f64)", || Dyadic::from(x))?;
        check_repr(&d)?;
        let (v, _) = raw_bd(&d);
        if v != BD::from_f64(x) {
            return Err(format!("Dyadic::from({x:e}) stores {d:?}, not the float's exact value"));
        }
        let in_range = x == 0.0 || (x.abs() >= 2f64.powi(-900) && x.abs() <= 2f64.powi(900));
        let back = guarded("f64::try_from", || f64::try_from(d))?;
        obs.class_if(!in_range, "outside-2^+-900");
        if in_range {
            if back != Ok(x) && !(x == 0.0 && back == Ok(0.0)) {
                let msg = format!("f64::try_from(Dyadic::from({x:e})) = {back:?}");
                if d.verif_raw_parts().3 & 1 == 1 {
                    obs.known("dyadic-f64-odd-64bit-mantissa", msg)?;
                } else {
                    return Err(msg);
                }
            }
        } else if let Ok(y) = back {
            // outside the asserted range an error is tolerated, a wrong value is not
            if y != x {
                return Err(format!("f64::try_from(Dyadic::from({x:e})) = Ok({y:e})"));
            }
        }
    }
    let inr = |x: f64| x == 0.0 || (x.abs() >= 2f64.powi(-900) && x.abs() <= 2f64.powi(900));
    if inr(c.re) && inr(c.im) {
        obs.nontrivial();
        let z = Complex64::new(c.re, c.im);
        let s = Scalar4::from(z);
        let back = guarded("complex_value", || s.complex_value())?;
        if back != z {
            return Err(format!("Scalar4::from({z}).complex_value() = {back}"));
        }
        let s = Scalar4::complex(c.re, c.im);
        let back = guarded("complex_value", || s.complex_value())?;
        if back != z {
            return Err(format!("Scalar4::complex({}, {}).complex_value() = {back}", c.re, c.im));
        }
        let s = Scalar4::real(c.re);
        let back = guarded("complex_value", || s.complex_value())?;
        if back.re != c.re || back.im != 0.0 {
            return Err(format!("Scalar4::real({}).complex_value() = {back}", c.re));
        }
    }
    Ok(())
}

pub fn def(ctx: &Ctx) -> PropertyDef {
    let t = ctx.tier;
    let depth = t.pick(5, 8);
    let sections = vec![
        Section::random(
            "scalar-exact",
            ctx.cases(60000, 1500000),
            move || {
                (se_strategy(depth, false), 0u8..6, se_strategy(2, false))
                    .prop_map(|(a, variant, b)| SCase { a, variant, b })
            },
            check_scalar,
        ),
        Section::random(
            "scalar-float",
            ctx.cases(40000, 1000000),
            move || {
                (se_strategy(depth, true), 0u8..6, se_strategy(2, true))
                    .prop_map(|(a, variant, b)| SCase { a, variant, b })
            },
            check_scalar,
        ),
        Section::random(
            "dyadic",
            ctx.cases(80000, 2000000),
            move || {
                (
                    de_strategy(depth, true),
                    prop_oneof![3 => de_strategy(2, true), 1 => Just(DE::New(0, 0))],
                    prop_oneof![Just(-100i32), -120i32..=10],
                )
                    .prop_map(|(a, b, eps_exp)| DCase { a, b, eps_exp })
            },
            check_dyadic,
        ),
        Section::random(
            "dyadic-exact",
            ctx.cases(60000, 1500000),
            move || {
                (
                    de_strategy(depth, false),
                    prop_oneof![3 => de_strategy(3, false), 1 => Just(DE::New(0, 0))],
                    prop_oneof![Just(-100i32), -120i32..=10],
                )
                    .prop_map(|(a, b, eps_exp)| DCase { a, b, eps_exp })
            },
            check_dyadic,
        ),
        Section::random(
            "float-roundtrip",
            ctx.cases(60000, 1500000),
            || (float_any(), float_any()).prop_map(|(re, im)| FCase { re, im }),
            check_float,
        ),
    ];
    PropertyDef {
        id: "C07",
        rule: "expression trees over Dyadic / Scalar4 (leaves: edge-biased 64-bit integers x exponents in [-1000,1000], f64 constants, phases k/4 and general, sqrt2 powers, 1+e^{ia}; nodes: + - * neg conj mul_sqrt2_pow mul_phase) evaluated by the library and by a BigInt model: a result not flagged approximate must equal the exact value coefficient by coefficient, and is_zero/is_one/==/exact_phase_and_sqrt2_pow must agree with it; complex_value()/f64::try_from must match the stored coefficients to 1e-12 (1e-15) relative; Ord and abs_diff_eq on dyadics must agree with the stored values; f64 -> Dyadic/Scalar4 -> f64 must round-trip for |x| in [2^-900,2^900] and 0. Non-trivial = >=3 operations and one of: >=60-bit mantissa, exact cancellation to zero, recognised phase*sqrt2-power, set approx flag with a full odd 64-bit mantissa; every in-range float round trip. Distinct by hash of the tree.",
        assumptions: vec![
            "BigInt model of Z[omega][1/2] written from the definition",
            "i64::MIN is excluded as a Dyadic::new argument (its negation overflows in debug builds only)",
            "float clauses are asserted for magnitudes in [2^-900, 2^900] (and zero)",
        ],
        sections,
    }
}

/// Entry point for the libFuzzer target: the same check without known-finding suppression.
pub fn check_scalar_strict(c: &SCase) -> Result<(), String> {
    let mut obs = Obs::new(
        "C07",
        std::sync::Arc::new(crate::engine::KnownFindings::default()),
        true,
    );
    check_scalar(c, &mut obs)
}

pub fn case_json(c: &SCase) -> String {
    serde_json::json!({"property": "C07", "section": "scalar-float", "case": c}).to_string()
}
