//! C16 — phases: canonical representative mod 2, group laws, classification, best rational
//! approximation, float round trip.

use super::common::*;
use crate::engine::{Ctx, Obs, PropertyDef, Section};
use num::{One, Rational64, Zero};
use proptest::prelude::*;
use quizx::phase::Phase;
use serde::{Deserialize, Serialize};

fn gcd(a: i128, b: i128) -> i128 {
    let (mut a, mut b) = (a.abs(), b.abs());
    while b != 0 {
        let t = a % b;
        a = b;
        b = t;
    }
    a
}

fn reduce(n: i128, d: i128) -> (i128, i128) {
    assert!(d != 0);
    let (n, d) = if d < 0 { (-n, -d) } else { (n, d) };
    let g = gcd(n, d).max(1);
    (n / g, d / g)
}

/// canonical representative in (-1, 1]
fn canon(n: i128, d: i128) -> (i128, i128) {
    let (n, d) = reduce(n, d);
    let mut m = n.rem_euclid(2 * d);
    if m > d {
        m -= 2 * d;
    }
    (m, d)
}

fn of(p: Phase) -> (i128, i128) {
    let r = p.to_rational();
    (*r.numer() as i128, *r.denom() as i128)
}

fn mk(n: i64, d: i64) -> Phase {
    Phase::new(Rational64::new(n, d))
}

/// CPython's Fraction.limit_denominator on n/d (d > 0, reduced)
fn py_limit(n: i128, d: i128, max_d: i128) -> (i128, i128) {
    if d <= max_d {
        return (n, d);
    }
    let (mut p0, mut q0, mut p1, mut q1) = (0i128, 1i128, 1i128, 0i128);
    let (mut nn, mut dd) = (n, d);
    loop {
        let a = nn.div_euclid(dd);
        let q2 = q0 + a * q1;
        if q2 > max_d {
            break;
        }
        let np0 = p1;
        let nq0 = q1;
        let np1 = p0 + a * p1;
        p0 = np0;
        q0 = nq0;
        p1 = np1;
        q1 = q2;
        let t = nn - a * dd;
        nn = dd;
        dd = t;
    }
    let k = (max_d - q0).div_euclid(q1);
    if 2 * dd * (q0 + k * q1) <= d {
        reduce(p1, q1)
    } else {
        reduce(p0 + k * p1, q0 + k * q1)
    }
}

pub fn py_limit_pub(n: i128, d: i128, max_d: i128) -> (i128, i128) {
    py_limit(n, d, max_d)
}

/// brute force: closest fraction with denominator <= max_d; returns the set of minimisers
fn brute_closest(n: i128, d: i128, max_d: i128) -> Vec<(i128, i128)> {
    let mut best: Option<(i128, i128)> = None; // distance as fraction (num, den)
    let mut arg = vec![];
    for q in 1..=max_d {
        // nearest integers p to n*q/d
        let f = (n * q).div_euclid(d);
        for p in [f, f + 1] {
            // |n/d - p/q| = |n q - p d| / (d q)
            let num = (n * q - p * d).abs();
            let den = d * q;
            let better = match best {
                None => true,
                Some((bn, bd)) => num * bd < bn * den,
            };
            let equal = match best {
                None => false,
                Some((bn, bd)) => num * bd == bn * den,
            };
            if better {
                best = Some((num, den));
                arg = vec![reduce(p, q)];
            } else if equal {
                let r = reduce(p, q);
                if !arg.contains(&r) {
                    arg.push(r);
                }
            }
        }
    }
    arg
}

#[derive(Clone, Debug, Serialize, Deserialize)]
pub struct Case {
    pub a: (i64, i64),
    pub b: (i64, i64),
    pub k: i64,
    pub bound: i64,
    pub turns: i64,
}

fn check(c: &Case, obs: &mut Obs) -> Result<(), String> {
    let (an, ad) = c.a;
    let (bn, bd) = c.b;
    if ad == 0 || bd == 0 {
        // not a rational (the generator never produces it; a mutated case may)
        obs.skip("zero-denominator");
        return Ok(());
    }
    let pa = guarded("Phase::new", || mk(an, ad))?;
    let pb = guarded("Phase::new", || mk(bn, bd))?;
    let ca = canon(an as i128, ad as i128);
    let cb = canon(bn as i128, bd as i128);
    let outside = reduce(an as i128, ad as i128) != ca;
    let end = ca.0 == ca.1 || ca == (0, 1);
    if outside || end {
        obs.nontrivial();
    }
    obs.class_if(outside, "input-outside-(-1,1]");
    obs.class_if(ca.0 == ca.1, "value-is-1");
    if of(pa) != ca {
        return Err(format!("Phase::new({an}/{ad}) stores {:?}, canonical representative is {ca:?}", of(pa)));
    }
    if of(pb) != cb {
        return Err(format!("Phase::new({bn}/{bd}) stores {:?}, canonical representative is {cb:?}", of(pb)));
    }
    // normalize is idempotent
    if pa.normalize() != pa {
        return Err("normalize() of a stored phase changes it".into());
    }
    // equality <=> congruence mod 2; adding full turns does not change the phase
    let shifted = guarded("Phase::new", || {
        Phase::new(Rational64::new(an, ad) + Rational64::from_integer(2 * c.turns))
    })?;
    if shifted != pa {
        return Err(format!("{an}/{ad} + {} full turns compares unequal: {:?} vs {:?}", c.turns, of(shifted), of(pa)));
    }
    let congruent = {
        // a - b is an even integer
        let (n, d) = reduce(ca.0 * cb.1 - cb.0 * ca.1, ca.1 * cb.1);
        d == 1 && n % 2 == 0
    };
    if (pa == pb) != congruent {
        return Err(format!("{an}/{ad} == {bn}/{bd} is {}, congruent mod 2 is {congruent}", pa == pb));
    }
    // group laws
    let sum = guarded("add", || pa + pb)?;
    let want = canon(ca.0 * cb.1 + cb.0 * ca.1, ca.1 * cb.1);
    if of(sum) != want {
        return Err(format!("{ca:?} + {cb:?} = {:?}, expected {want:?}", of(sum)));
    }
    let diff = guarded("sub", || pa - pb)?;
    let want = canon(ca.0 * cb.1 - cb.0 * ca.1, ca.1 * cb.1);
    if of(diff) != want {
        return Err(format!("{ca:?} - {cb:?} = {:?}, expected {want:?}", of(diff)));
    }
    let neg = guarded("neg", || -pa)?;
    if of(neg) != canon(-ca.0, ca.1) {
        return Err(format!("-{ca:?} = {:?}", of(neg)));
    }
    if (pa + neg) != Phase::zero() {
        return Err("a + (-a) != 0".into());
    }
    let scaled = guarded("mul i64", || pa * c.k)?;
    // integer scaling is well defined modulo 2: use the original (unnormalised) value
    let want = canon(an as i128 * c.k as i128, ad as i128);
    if of(scaled) != want {
        return Err(format!("{ca:?} * {} = {:?}, expected {want:?}", c.k, of(scaled)));
    }
    if c.k != 0 {
        let q = guarded("div i64", || pa / c.k)?;
        let want = canon(ca.0, ca.1 * c.k as i128);
        if of(q) != want {
            return Err(format!("{ca:?} / {} = {:?}, expected {want:?}", c.k, of(q)));
        }
    }
    let mut acc = pa;
    acc += pb;
    acc -= pb;
    if acc != pa {
        return Err("(a += b) -= b != a".into());
    }
    // every compound-assignment form equals its operator and leaves the canonical representative;
    // the From / Into impls agree with Phase::new / to_rational
    {
        let stored = |p: Phase, what: &str| -> Result<(), String> {
            let (n, d) = of(p);
            if d <= 0 || !(-d < n && n <= d) || gcd(n, d) != 1 {
                return Err(format!("{what} stores the non-canonical representative {n}/{d}"));
            }
            Ok(())
        };
        let mut x = pa;
        x += pb;
        stored(x, "a += b")?;
        if x != sum {
            return Err(format!("a += b gives {:?}, a + b gives {:?}", of(x), of(sum)));
        }
        let mut x = pa;
        x -= pb;
        stored(x, "a -= b")?;
        if of(x) != of(diff) {
            return Err(format!("a -= b gives {:?}, a - b gives {:?}", of(x), of(diff)));
        }
        let mut x = pa;
        guarded("mul_assign i64", || x *= c.k)?;
        stored(x, "a *= k")?;
        if of(x) != of(scaled) {
            return Err(format!("a *= {} gives {:?}, a * k gives {:?}", c.k, of(x), of(scaled)));
        }
        if c.k != 0 {
            let mut x = pa;
            guarded("div_assign i64", || x /= c.k)?;
            stored(x, "a /= k")?;
            if of(x) != of(pa / c.k) {
                return Err(format!("a /= {} differs from a / k", c.k));
            }
        }
        // phase times / over phase: defined on the stored representatives
        let prod = guarded("mul phase", || pa * pb)?;
        stored(prod, "a * b")?;
        if of(prod) != canon(ca.0 * cb.0, ca.1 * cb.1) {
            return Err(format!("{ca:?} * {cb:?} = {:?}", of(prod)));
        }
        let mut x = pa;
        x *= pb;
        if x != prod {
            return Err("a *= b differs from a * b".into());
        }
        if cb.0 != 0 {
            let quo = guarded("div phase", || pa / pb)?;
            stored(quo, "a / b")?;
            if of(quo) != canon(ca.0 * cb.1, ca.1 * cb.0) {
                return Err(format!("{ca:?} / {cb:?} = {:?}", of(quo)));
            }
            let mut x = pa;
            x /= pb;
            if x != quo {
                return Err("a /= b differs from a / b".into());
            }
        }
        let via_pair: Phase = (an, ad).into();
        let via_ratio: Phase = Rational64::new(an, ad).into();
        if via_pair != pa || via_ratio != pa || of(via_pair) != ca || of(via_ratio) != ca {
            return Err(format!("From<(i64,i64)> / From<Rational64> for {an}/{ad} differ from Phase::new"));
        }
        let via_int: Phase = c.turns.into();
        if of(via_int) != canon(c.turns as i128, 1) {
            return Err(format!("From<i64>({}) stores {:?}", c.turns, of(via_int)));
        }
        let back: Rational64 = pa.into();
        if back != pa.to_rational() {
            return Err("Into<Rational64> differs from to_rational".into());
        }
        let f: f64 = pa.into();
        if f != pa.to_f64() || (f - ca.0 as f64 / ca.1 as f64).abs() > 1e-15 {
            return Err(format!("Into<f64> of {ca:?} gives {f}"));
        }
    }
    // classification depends only on the class
    let is_int = ca.1 == 1;
    let pauli = is_int;
    let clifford = ca.1 <= 2;
    let proper = ca.1 == 2;
    let t = ca.1 == 4;
    if pa.is_pauli() != pauli || pa.is_clifford() != clifford || pa.is_proper_clifford() != proper || pa.is_t() != t {
        return Err(format!(
            "classification of {ca:?}: pauli {} clifford {} proper {} t {}; expected {pauli} {clifford} {proper} {t}",
            pa.is_pauli(),
            pa.is_clifford(),
            pa.is_proper_clifford(),
            pa.is_t()
        ));
    }
    if pa.is_zero() != (ca.0 == 0) || pa.is_one() != (ca == (1, 1)) {
        return Err("is_zero / is_one wrong".into());
    }
    if shifted.is_t() != t || shifted.is_clifford() != clifford {
        return Err("classification changed by full turns".into());
    }
    // limit_denominator
    let bound = c.bound.max(2);
    let lim = guarded("limit_denominator", || pa.limit_denominator(bound))?;
    let pl = py_limit(ca.0, ca.1, bound as i128);
    let want = canon(pl.0, pl.1);
    if of(lim) != want {
        return Err(format!(
            "limit_denominator({ca:?}, {bound}) = {:?}, Python's algorithm gives {pl:?} -> {want:?}",
            of(lim)
        ));
    }
    let raw = guarded("utils::limit_denominator", || {
        quizx::phase::utils::limit_denominator(Rational64::new(ca.0 as i64, ca.1 as i64), bound)
    })?;
    let rawr = reduce(*raw.numer() as i128, *raw.denom() as i128);
    if rawr != pl {
        return Err(format!("utils::limit_denominator({ca:?}, {bound}) = {rawr:?}, Python's algorithm gives {pl:?}"));
    }
    if ca.1 > bound as i128 {
        obs.class("limit-denominator-active");
        if rawr.1 > bound as i128 {
            return Err(format!("limit_denominator result {rawr:?} exceeds the bound {bound}"));
        }
        if bound <= 64 {
            let mins = brute_closest(ca.0, ca.1, bound as i128);
            if !mins.contains(&rawr) {
                return Err(format!(
                    "limit_denominator({ca:?}, {bound}) = {rawr:?} is not a closest fraction; closest: {mins:?}"
                ));
            }
            if mins.len() > 1 {
                obs.class("limit-denominator-tie");
                obs.nontrivial();
            }
        }
    } else if rawr != ca {
        return Err("limit_denominator changed a fraction already within the bound".into());
    }
    Ok(())
}

/// denominators beyond 2^31 (up to 2^61): only operations whose exact result fits 64 bits
#[derive(Clone, Debug, Serialize, Deserialize)]
pub struct WCase {
    pub n: i64,
    pub d: i64,
    pub bn: i64,
    pub k: i64,
    pub bound: i64,
}

fn check_wide(c: &WCase, obs: &mut Obs) -> Result<(), String> {
    const LIM: i128 = 1i128 << 62;
    let d = c.d.clamp(1, (1i64 << 61) - 1);
    let n = c.n.clamp(-(1i64 << 62) + 1, (1i64 << 62) - 1);
    let bn = if d == 1 { 1 } else { c.bn.rem_euclid(2 * d) - d + 1 }; // in (-d, d]
    let pa = guarded("Phase::new", || mk(n, d))?;
    let pb = guarded("Phase::new", || mk(bn, d))?;
    let ca = canon(n as i128, d as i128);
    let cb = canon(bn as i128, d as i128);
    obs.class_if(ca.1 > (1 << 31), "denominator>2^31");
    obs.class_if(ca.1 > (1i128 << 48), "denominator>2^48");
    if ca.1 > (1 << 31) {
        obs.nontrivial();
    }
    if of(pa) != ca {
        return Err(format!("Phase::new({n}/{d}) stores {:?}, canonical representative is {ca:?}", of(pa)));
    }
    if of(pb) != cb {
        return Err(format!("Phase::new({bn}/{d}) stores {:?}, canonical representative is {cb:?}", of(pb)));
    }
    if pa.normalize() != pa {
        return Err("normalize() of a stored phase changes it".into());
    }
    let neg = guarded("neg", || -pa)?;
    if of(neg) != canon(-ca.0, ca.1) {
        return Err(format!("-{ca:?} = {:?}", of(neg)));
    }
    // same-denominator sums: every intermediate of the exact computation stays below 2^63
    let sum = guarded("add", || pa + pb)?;
    let want = canon(ca.0 * cb.1 + cb.0 * ca.1, ca.1 * cb.1);
    if of(sum) != want {
        return Err(format!("{ca:?} + {cb:?} = {:?}, expected {want:?}", of(sum)));
    }
    let diff = guarded("sub", || pa - pb)?;
    let want = canon(ca.0 * cb.1 - cb.0 * ca.1, ca.1 * cb.1);
    if of(diff) != want {
        return Err(format!("{ca:?} - {cb:?} = {:?}, expected {want:?}", of(diff)));
    }
    if (pa + neg) != Phase::zero() {
        return Err("a + (-a) != 0".into());
    }
    // integer scaling where the exact product of the stored value fits
    let k = c.k;
    if (ca.0 * k as i128).abs() < LIM && (ca.1 * k as i128).abs() < LIM {
        obs.class_if(k < 0, "negative-scalar");
        let scaled = guarded("mul i64", || pa * k)?;
        let want = canon(ca.0 * k as i128, ca.1);
        if of(scaled) != want {
            return Err(format!("{ca:?} * {k} = {:?}, expected {want:?}", of(scaled)));
        }
        let mut acc = pa;
        guarded("mul_assign i64", || acc *= k)?;
        if acc != scaled {
            return Err(format!("{ca:?} *= {k} differs from {ca:?} * {k}"));
        }
        if k == -1 && scaled != neg {
            return Err(format!("{ca:?} * -1 != -{ca:?}"));
        }
        if k != 0 {
            let q = guarded("div i64", || pa / k)?;
            let want = canon(ca.0, ca.1 * k as i128);
            if of(q) != want {
                return Err(format!("{ca:?} / {k} = {:?}, expected {want:?}", of(q)));
            }
        }
    }
    let pauli = ca.1 == 1;
    if pa.is_pauli() != pauli || pa.is_clifford() != (ca.1 <= 2) || pa.is_proper_clifford() != (ca.1 == 2) || pa.is_t() != (ca.1 == 4) {
        return Err(format!("classification of {ca:?} wrong"));
    }
    if pa.is_zero() != (ca.0 == 0) || pa.is_one() != (ca == (1, 1)) {
        return Err("is_zero / is_one wrong".into());
    }
    // limit_denominator where the textbook algorithm's products stay inside 63 bits
    let bound = c.bound.max(2);
    if ca.1 * 4 * (bound as i128) < (1i128 << 63) {
        let lim = guarded("limit_denominator", || pa.limit_denominator(bound))?;
        let pl = py_limit(ca.0, ca.1, bound as i128);
        let want = canon(pl.0, pl.1);
        if of(lim) != want {
            return Err(format!("limit_denominator({ca:?}, {bound}) = {:?}, Python's algorithm gives {pl:?} -> {want:?}", of(lim)));
        }
        obs.class("limit-denominator-checked");
    }
    // float round trip: the stored value within rounding
    let f = pa.to_f64();
    let exact = ca.0 as f64 / ca.1 as f64;
    if (f - exact).abs() > 1e-15 {
        return Err(format!("to_f64({ca:?}) = {f}, expected {exact}"));
    }
    Ok(())
}

fn wide_strategy() -> BoxedStrategy<WCase> {
    let den = prop_oneof![
        3 => (31u32..=60, -3i64..=3).prop_map(|(e, o)| (1i64 << e) + o),
        2 => (1i64 << 31)..(1i64 << 61),
        1 => (1i64 << 31)..(1i64 << 34),
        1 => 1i64..(1i64 << 31),
    ];
    (den, any::<i64>(), -3i64..=3, any::<i64>(), prop_oneof![
        4 => -8i64..=8,
        1 => Just(-1i64),
        2 => -1000i64..=1000,
        1 => any::<i32>().prop_map(|x| x as i64),
    ], prop_oneof![2i64..=64, 2i64..=100000])
        .prop_map(|(d, r, turns, bn, k, bound)| {
            // numerator: a residue in (-d, d] plus a few full/half turns, inside 62 bits
            let base = r.rem_euclid(2 * d) - d + 1;
            let n = (base as i128 + turns as i128 * d as i128).clamp(-(1i128 << 62) + 1, (1i128 << 62) - 1) as i64;
            WCase { n, d, bn, k, bound }
        })
        .boxed()
}

#[derive(Clone, Debug, Serialize, Deserialize)]
pub struct FCase {
    pub x: f64,
}

fn check_float(c: &FCase, obs: &mut Obs) -> Result<(), String> {
    let x = c.x;
    let p = guarded(&format!("Phase::from_f64({x})"), || Phase::from_f64(x))?;
    let (n, d) = of(p);
    if !(-d < n && n <= d) || d <= 0 || gcd(n, d) != 1 {
        return Err(format!("Phase::from_f64({x}) stores the non-canonical {n}/{d}"));
    }
    let y = p.to_f64();
    // y == x (mod 2) within 1e-9
    let diff = (y - x).rem_euclid(2.0);
    let dist = diff.min(2.0 - diff);
    if !(dist <= 1e-9) {
        return Err(format!("to_f64(from_f64({x})) = {y}, differs from x modulo 2 by {dist:e}"));
    }
    if x.abs() > 1.0 {
        obs.nontrivial();
    }
    let p2: Phase = x.into();
    if p2 != p {
        return Err("From<f64> differs from from_f64".into());
    }
    let back: f64 = p.into();
    if back != y {
        return Err("Into<f64> differs from to_f64".into());
    }
    Ok(())
}

fn frac() -> BoxedStrategy<(i64, i64)> {
    let den = prop_oneof![
        3 => 1i64..=16,
        2 => 1i64..=1000,
        1 => 1i64..(1 << 31),
        1 => prop::sample::select(vec![1i64, 2, 4, 8, 256, 257, 1 << 20, (1 << 31) - 1]),
    ];
    (den, any::<bool>(), prop_oneof![
        // edge-biased numerators around multiples of the denominator
        3 => (-3i64..=3, -1i64..=1).prop_map(|(m, o)| (m, o, 0i64)),
        3 => (0i64..1, 0i64..1, -(1i64 << 31) + 1..(1i64 << 31)).prop_map(|(_, _, r)| (0, 0, r)),
        2 => (-2i64..=2, 0i64..1, -40i64..=40).prop_map(|(m, _, r)| (m, 0, r)),
    ])
        .prop_map(|(d, negd, (m, o, r))| {
            let n = (m * d + o + r).clamp(-(1i64 << 31) + 1, (1i64 << 31) - 1);
            if negd {
                (-n, -d)
            } else {
                (n, d)
            }
        })
        .boxed()
}

pub fn def(ctx: &Ctx) -> PropertyDef {
    let sections = vec![
        Section::random(
            "rationals",
            ctx.cases(300000, 6000000),
            || {
                (
                    frac(),
                    frac(),
                    prop_oneof![-8i64..=8, -(1i64 << 20)..(1i64 << 20)],
                    prop_oneof![3 => 2i64..=64, 2 => 2i64..=10000, 1 => 2i64..(1 << 31)],
                    -1000i64..=1000,
                )
                    .prop_map(|(a, b, k, bound, turns)| Case {
                        a,
                        b,
                        k,
                        bound,
                        turns,
                    })
            },
            check,
        ),
        Section::random("wide-denominators", ctx.cases(100000, 2000000), wide_strategy, check_wide),
        Section::random(
            "floats",
            ctx.cases(100000, 2000000),
            || {
                prop_oneof![
                    3 => -4.0f64..4.0,
                    2 => -1.0e6f64..1.0e6,
                    1 => prop::sample::select(vec![0.0f64, 1.0, -1.0, 2.0, -2.0, 0.5, 0.25, 1.0 / 3.0, 1e-9, -0.75, 3.0, 999999.5]),
                    1 => (-2000i64..=2000, 1i64..=64).prop_map(|(n, d)| n as f64 / d as f64),
                ]
                .prop_map(|x| FCase { x })
            },
            check_float,
        ),
    ];
    PropertyDef {
        id: "C16",
        rule: "rationals n/d with |n|,|d| < 2^31 (numerators edge-biased around multiples of d, negative denominators through Ratio::new) against an i128 model: stored representative is the unique reduced one in (-1,1]; == <=> congruent mod 2; + - neg *int /int agree with the model, as do the compound assignments += -= *= /= (each must also leave the canonical representative), phase*phase and phase/phase on the stored representatives, and the From/Into impls; classification depends only on the class; limit_denominator == a port of CPython's algorithm for every bound and a brute-force closest fraction for bounds <= 64; floats |x| <= 1e6 round-trip modulo 2 to 1e-9. Non-trivial = input outside (-1,1] or at an interval end, limit_denominator tie, float with |x| > 1.",
        assumptions: vec!["i128 rational model; CPython limit_denominator ported from Lib/fractions.py"],
        sections,
    }
}
