use crate::engine::{Ctx, PropertyDef};

pub mod common;
pub mod c02;
pub mod c08;

pub fn ids() -> Vec<&'static str> {
    vec!["C02", "C08"]
}

pub fn get(id: &str, ctx: &Ctx) -> Option<PropertyDef> {
    Some(match id {
        "C02" => c02::def(ctx),
        "C08" => c08::def(ctx),
        _ => return None,
    })
}
