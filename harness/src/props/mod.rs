use crate::engine::{Ctx, PropertyDef};

pub mod common;
pub mod c01;
pub mod c02;
pub mod c03;
pub mod c04;
pub mod rules;
pub mod c05;
pub mod c06;
pub mod c07;
pub mod c08;
pub mod c09;
pub mod c10;
pub mod c11;
pub mod c12;
pub mod c13;
pub mod c14;
pub mod c15;
pub mod c16;
pub mod c17;
pub mod c18;
pub mod c19;
pub mod c20;

pub fn ids() -> Vec<&'static str> {
    vec!["C01", "C02", "C03", "C04", "C05", "C06", "C07", "C08", "C09", "C10", "C11", "C12", "C13", "C14", "C15", "C16", "C17", "C18", "C19", "C20"]
}

/// Work factor per property on top of the base case counts in each `def` (chosen from measured
/// throughput so that a quick run takes roughly 15-40 s and a thorough run roughly 5-15 min on
/// 16 cores).
fn work_factor(id: &str) -> f64 {
    match id {
        "C01" => 25.0,
        "C02" => 120.0,
        "C03" => 13.0,
        "C04" => 3.0,
        "C05" => 20.0,
        "C06" => 25.0,
        "C07" => 25.0,
        "C08" => 22.0,
        "C09" => 12.0,
        "C10" => 10.0,
        "C11" => 60.0,
        "C12" => 120.0,
        "C13" => 100.0,
        "C14" => 60.0,
        "C15" => 80.0,
        "C16" => 80.0,
        "C17" => 80.0,
        "C18" => 30.0,
        "C19" => 60.0,
        "C20" => 150.0,
        _ => 1.0,
    }
}

pub fn get(id: &str, ctx: &Ctx) -> Option<PropertyDef> {
    let mut scaled = ctx.clone();
    scaled.scale *= work_factor(id);
    let ctx = &scaled;
    Some(match id {
        "C01" => c01::def(ctx),
        "C02" => c02::def(ctx),
        "C03" => c03::def(ctx),
        "C04" => c04::def(ctx),
        "C05" => c05::def(ctx),
        "C06" => c06::def(ctx),
        "C07" => c07::def(ctx),
        "C08" => c08::def(ctx),
        "C09" => c09::def(ctx),
        "C10" => c10::def(ctx),
        "C11" => c11::def(ctx),
        "C12" => c12::def(ctx),
        "C13" => c13::def(ctx),
        "C14" => c14::def(ctx),
        "C15" => c15::def(ctx),
        "C16" => c16::def(ctx),
        "C17" => c17::def(ctx),
        "C18" => c18::def(ctx),
        "C19" => c19::def(ctx),
        "C20" => c20::def(ctx),
        _ => return None,
    })
}
