//! C10 — rewriting diagrams with boolean parameters is sound under every assignment.

use super::c01::{Proc, ALL_PROCS};
use super::c04::arg_ids;
use super::common::*;
use super::rules::{Rule, ALL_RULES};
use crate::engine::{catch, Ctx, Obs, PropertyDef, Section};
use crate::gen::circ::{circ_spec, unitary_kinds, CircParams, CircSpec};
use crate::gen::diag::{diag_spec, DiagParams, DiagSpec, Palette};
use crate::gen::plant::{gadgets_plant, pivot_plant, planted_spec, PlantedSpec};
use crate::oracle::csim::{self, GK};
use crate::oracle::diag::{build, read_scalar, snapshot, Diag, IdPlan, MScalar};
use crate::oracle::ring::{Ring, Zw, C64};
use proptest::prelude::*;
use quizx::graph::{GraphLike, V};
use quizx::params::{Expr, Parity};
use serde::{Deserialize, Serialize};
use std::collections::BTreeSet;

fn parity_value(p: &Parity, sigma: u32) -> bool {
    let vars: Vec<u32> = p.iter().collect();
    let konst = *p != Parity::new(vars.clone(), false);
    let mut v = konst;
    for x in vars {
        v ^= (sigma >> x) & 1 == 1;
    }
    v
}

fn expr_value(e: &Expr, sigma: u32) -> bool {
    e.iter().all(|p| parity_value(p, sigma))
}

fn mul_mscalar(a: &MScalar, b: &MScalar) -> MScalar {
    match (a, b) {
        (MScalar::Exact(x), MScalar::Exact(y)) => MScalar::Exact(x.mul(y)),
        _ => {
            let c = a.to_c64() * b.to_c64();
            MScalar::Float(c.re, c.im)
        }
    }
}

/// All variables mentioned by the graph (vertices and scalar factors).
fn graph_vars<G: GraphLike>(g: &G) -> BTreeSet<u32> {
    let mut s = BTreeSet::new();
    for v in g.vertices() {
        s.extend(g.vars(v).iter());
    }
    for (e, _) in g.scalar_factors() {
        for p in e.iter() {
            s.extend(p.iter());
        }
    }
    s
}

/// instantiate(g, sigma): the concrete diagram denoted under the assignment
fn inst<G: GraphLike>(g: &G, sigma: u32) -> Result<Diag, String> {
    let snap = snapshot(g)?;
    let mut d = snap.diag.instantiate(&|x| (sigma >> x) & 1 == 1);
    let mut s = read_scalar(g.scalar());
    for (e, f) in g.scalar_factors() {
        if expr_value(e, sigma) {
            s = mul_mscalar(&s, &read_scalar(f));
        }
    }
    d.scalar = s;
    Ok(d)
}

pub(crate) fn inst_truth<G: GraphLike>(g: &G, sigma: u32) -> Result<Option<Truth>, String> {
    let d = inst(g, sigma)?;
    d.check_wellformed()?;
    match truth_of(&d) {
        Ok(t) => Ok(Some(t)),
        Err(crate::oracle::zxeval::EvalErr::TooBig) => Ok(None),
        Err(e) => Err(format!("{e:?}")),
    }
}

const MAXV: u32 = 4;

struct Before {
    truths: Vec<Option<Truth>>, // per assignment over variables 0..MAXV
}

fn before_of<G: GraphLike>(g: &G) -> Result<Before, String> {
    let mut truths = vec![];
    for sigma in 0..(1u32 << MAXV) {
        truths.push(inst_truth(g, sigma)?);
    }
    Ok(Before { truths })
}

fn compare_all<G: GraphLike>(before: &Before, after: &G, what: &str, obs: &mut Obs) -> Result<(), String> {
    let extra: Vec<u32> = graph_vars(after).into_iter().filter(|&v| v >= MAXV).collect();
    if !extra.is_empty() {
        return Err(format!("{what}: rewriting introduced new variables {extra:?}"));
    }
    for sigma in 0..(1u32 << MAXV) {
        let Some(b) = &before.truths[sigma as usize] else {
            obs.skip("oracle-too-big");
            continue;
        };
        let a = match inst_truth(after, sigma) {
            Ok(Some(t)) => t,
            Ok(None) => {
                obs.skip("oracle-too-big");
                continue;
            }
            Err(e) => return Err(format!("{what}: result is not a well-formed diagram: {e}")),
        };
        same_truth(b, &a, REL_TOL).map_err(|e| {
            format!("{what}: meaning changed under assignment b0..b3={sigma:04b} (b0 = lowest bit): {e}")
        })?;
    }
    Ok(())
}

fn has_factor<G: GraphLike>(g: &G) -> bool {
    g.scalar_factors().next().is_some()
}

fn check_rules<G: GraphLike + PartialEq>(
    d: &Diag,
    plan: &IdPlan,
    backend: &str,
    obs: &mut Obs,
) -> Result<(), String> {
    let (g, _) = build::<G>(d, plan);
    let before = before_of(&g).map_err(|e| format!("harness: before diagram: {e}"))?;
    let ids: Vec<V> = arg_ids(&g);
    for &rule in ALL_RULES.iter() {
        let pairs: Vec<(V, V)> = if rule.arity() == 1 {
            ids.iter().map(|&v| (v, v)).collect()
        } else {
            ids.iter()
                .flat_map(|&a| ids.iter().map(move |&b| (a, b)))
                .collect()
        };
        for (v0, v1) in pairs {
            let what = format!("{backend}: {}({v0},{v1})", rule.name());
            let accepted = catch(|| rule.check(&g, v0, v1))
                .map_err(|p| format!("{what}: check panicked: {p}"))?;
            if !accepted {
                continue;
            }
            let touches_vars = [v0, v1]
                .iter()
                .any(|&v| g.contains_vertex(v) && !g.vars(v).is_empty())
                || [v0, v1].iter().any(|&v| {
                    g.contains_vertex(v)
                        && g.neighbors(v).any(|n| !g.vars(n).is_empty())
                });
            let mut h = g.clone();
            catch(|| rule.unchecked(&mut h, v0, v1))
                .map_err(|p| format!("{what}: matcher accepted but the rule panicked: {p}"))?;
            obs.class(rule.accept_class());
            if touches_vars || has_factor(&h) {
                obs.nontrivial_key((rule as u64) << 32 | (v0 as u64) << 16 | v1 as u64);
                obs.class_if(has_factor(&h), "result-has-scalar-factor");
            }
            if let Err(e) = compare_all(&before, &h, &what, obs) {
                return Err(e);
            }
        }
    }
    Ok(())
}

fn check_procs<G: GraphLike + PartialEq>(
    d: &Diag,
    plan: &IdPlan,
    backend: &str,
    mask: u32,
    obs: &mut Obs,
) -> Result<(), String> {
    let (g0, _) = build::<G>(d, plan);
    let before = before_of(&g0).map_err(|e| format!("harness: before diagram: {e}"))?;
    let mut all: Vec<V> = g0.vertices().collect();
    all.sort();
    let vs: Vec<V> = all
        .iter()
        .enumerate()
        .filter(|(i, _)| (mask >> (i % 32)) & 1 == 1)
        .map(|(_, &v)| v)
        .collect();
    for &p in ALL_PROCS.iter() {
        let mut g = g0.clone();
        let what = format!("{backend}: {}", p.name());
        let fired = guarded(&what, || p.run(&mut g, &vs))?;
        if fired {
            obs.class(p.fired_class());
            if has_factor(&g) {
                obs.nontrivial_key(1000 + p as u64);
                obs.class("result-has-scalar-factor");
            }
        }
        compare_all(&before, &g, &what, obs)?;
    }
    let _ = Proc::FullSimp;
    Ok(())
}

#[derive(Clone, Debug, Serialize, Deserialize)]
pub struct DiagCase {
    pub spec: DiagSpec,
    pub mask: u32,
}

#[derive(Clone, Debug, Serialize, Deserialize)]
pub struct PlantedCase {
    pub spec: PlantedSpec,
    pub vars: Vec<(u16, u32)>,
    pub mask: u32,
}

fn check_rules_case(d: &Diag, plan: &IdPlan, obs: &mut Obs) -> Result<(), String> {
    if !d.has_vars() {
        obs.class("no-vars");
    }
    check_rules::<quizx::vec_graph::Graph>(d, plan, "vec", obs)?;
    check_rules::<quizx::hash_graph::Graph>(d, plan, "hash", obs)?;
    obs.classes.sort();
    obs.classes.dedup();
    Ok(())
}

fn check_procs_case(d: &Diag, plan: &IdPlan, mask: u32, obs: &mut Obs) -> Result<(), String> {
    check_procs::<quizx::vec_graph::Graph>(d, plan, "vec", mask, obs)?;
    check_procs::<quizx::hash_graph::Graph>(d, plan, "hash", mask, obs)?;
    obs.classes.sort();
    obs.classes.dedup();
    Ok(())
}

fn planted_diag(c: &PlantedCase) -> Diag {
    let mut d = c.spec.to_diag();
    // sprinkle variables over spiders (also over the planted ones)
    let sp: Vec<usize> = (0..d.verts.len())
        .filter(|&i| d.verts[i].kind != crate::oracle::diag::VK::B)
        .collect();
    for (raw, var) in &c.vars {
        if sp.is_empty() {
            break;
        }
        let v = sp[crate::gen::idx(*raw, sp.len())];
        let x = var % MAXV;
        if let Some(pos) = d.verts[v].vars.iter().position(|&y| y == x) {
            d.verts[v].vars.remove(pos);
        } else {
            d.verts[v].vars.push(x);
            d.verts[v].vars.sort();
        }
    }
    d
}

// ------------------------------------------------------------------------------------------
// circuits with measurements

#[derive(Clone, Debug, Serialize, Deserialize)]
pub struct CircCase {
    pub circ: CircSpec,
}

fn check_measure<G: GraphLike>(c: &csim::Circ, backend: &str, obs: &mut Obs) -> Result<(), String> {
    for (simplify, postselect) in [(false, false), (true, false), (false, true), (true, true)] {
        check_measure_mode::<G>(c, &format!("{backend} (simplify={simplify}, postselect={postselect})"), simplify, postselect, obs)?;
    }
    Ok(())
}

fn check_measure_mode<G: GraphLike>(
    c: &csim::Circ,
    backend: &str,
    simplify: bool,
    postselect: bool,
    obs: &mut Obs,
) -> Result<(), String> {
    let qc = c.to_quizx();
    let g: G = guarded(&format!("{backend}: to_graph_with_options"), || {
        qc.to_graph_with_options(simplify, postselect)
    })?;
    let mvars = c.measurement_vars();
    // all variables used
    let mut used: BTreeSet<u32> = BTreeSet::new();
    for (g, mv) in c.gates.iter().zip(mvars.iter()) {
        if matches!(g.k, GK::MeasureD | GK::MeasureR) {
            used.extend(g.vars.iter().copied());
            if let Some(v) = mv {
                if *v != u32::MAX {
                    used.insert(*v);
                }
            }
        }
    }
    let gv = graph_vars(&g);
    if !gv.is_subset(&used) {
        return Err(format!(
            "{backend}: translated diagram mentions variables {gv:?}, the circuit's measurements use {used:?}"
        ));
    }
    let vars: Vec<u32> = used.into_iter().collect();
    if vars.len() > 5 || vars.iter().any(|&v| v >= 31) {
        obs.skip("too-many-vars");
        return Ok(());
    }
    for a in 0..(1u32 << vars.len()) {
        let mut sigma = 0u32;
        for (i, &v) in vars.iter().enumerate() {
            if (a >> i) & 1 == 1 {
                sigma |= 1 << v;
            }
        }
        let outcome = |_gi: usize, explicit: &[u32], fresh: Option<u32>| -> bool {
            if explicit.is_empty() {
                (sigma >> fresh.unwrap()) & 1 == 1
            } else {
                explicit.iter().fold(false, |acc, &x| acc ^ ((sigma >> x) & 1 == 1))
            }
        };
        let truth = if c.all_phases_quarter() {
            Truth::Exact(csim::simulate_with::<Zw>(c, &outcome).map_err(|e| format!("{e:?}"))?)
        } else {
            Truth::Float(csim::simulate_with::<C64>(c, &outcome).map_err(|e| format!("{e:?}"))?)
        };
        let got = match inst_truth(&g, sigma) {
            Ok(Some(t)) => t,
            Ok(None) => {
                obs.skip("oracle-too-big");
                continue;
            }
            Err(e) => return Err(format!("{backend}: translated diagram is malformed: {e}")),
        };
        same_truth(&truth, &got, REL_TOL).map_err(|e| {
            format!("{backend}: to_graph under outcomes {sigma:b} differs from the projected circuit: {e}")
        })?;
    }
    Ok(())
}

fn check_circ(case: &CircCase, obs: &mut Obs) -> Result<(), String> {
    let c = case.circ.to_circ();
    let nm = c
        .gates
        .iter()
        .filter(|g| matches!(g.k, GK::MeasureD | GK::MeasureR))
        .count();
    if nm > 0 {
        obs.nontrivial();
    }
    obs.class_if(c.gates.iter().any(|g| g.k == GK::MeasureR), "measure-reset");
    obs.class_if(c.gates.iter().any(|g| g.k == GK::MeasureD), "measure");
    obs.class_if(
        c.gates
            .iter()
            .any(|g| matches!(g.k, GK::MeasureD | GK::MeasureR) && g.vars.is_empty()),
        "fresh-var",
    );
    obs.class_if(
        c.gates
            .iter()
            .any(|g| matches!(g.k, GK::MeasureD | GK::MeasureR) && g.vars == vec![0]),
        "explicit-var-0",
    );
    check_measure::<quizx::vec_graph::Graph>(&c, "vec", obs)?;
    check_measure::<quizx::hash_graph::Graph>(&c, "hash", obs)?;
    Ok(())
}

pub fn def(ctx: &Ctx) -> PropertyDef {
    let t = ctx.tier;
    let with_vars = move |mut p: DiagParams| {
        p.max_vars = MAXV;
        p.var_prob = 45;
        p
    };
    let mut mkinds = unitary_kinds();
    mkinds.extend(vec![(3, GK::MeasureD), (3, GK::MeasureR), (1, GK::InitAnc), (1, GK::PostSel)]);
    let sections = vec![
        Section::random(
            "rules-general",
            ctx.cases(600, 12000),
            move || diag_spec(with_vars(DiagParams::general(t.pick(5, 7), 3, Palette::Exact))),
            |s: &DiagSpec, obs| check_rules_case(&s.to_diag(), &s.plan, obs),
        ),
        Section::random(
            "rules-graphlike",
            ctx.cases(800, 16000),
            move || {
                let mut p = with_vars(DiagParams::graph_like(t.pick(6, 8), 3, Palette::Exact));
                p.allow_bnd_h = true;
                diag_spec(p)
            },
            |s: &DiagSpec, obs| check_rules_case(&s.to_diag(), &s.plan, obs),
        ),
        Section::random(
            "rules-planted",
            ctx.cases(600, 12000),
            move || {
                let mut p = with_vars(DiagParams::graph_like(t.pick(4, 5), 2, Palette::Exact));
                p.allow_bnd_h = true;
                (
                    planted_spec(
                        p,
                        prop_oneof![gadgets_plant(Palette::Exact, false), pivot_plant(Palette::Exact)]
                            .boxed(),
                        2,
                    ),
                    prop::collection::vec((any::<u16>(), 0..MAXV), 0..=5),
                    any::<u32>(),
                )
                    .prop_map(|(spec, vars, mask)| PlantedCase { spec, vars, mask })
            },
            |c: &PlantedCase, obs| check_rules_case(&planted_diag(c), &c.spec.host.plan, obs),
        ),
        Section::random(
            "simp-general",
            ctx.cases(1000, 20000),
            move || {
                (
                    diag_spec(with_vars(DiagParams::general(t.pick(7, 9), 3, Palette::Exact))),
                    any::<u32>(),
                )
                    .prop_map(|(spec, mask)| DiagCase { spec, mask })
            },
            |c: &DiagCase, obs| check_procs_case(&c.spec.to_diag(), &c.spec.plan, c.mask, obs),
        ),
        Section::random(
            "simp-planted",
            ctx.cases(1000, 20000),
            move || {
                let mut p = with_vars(DiagParams::graph_like(t.pick(5, 7), 3, Palette::ExactT));
                p.allow_bnd_h = true;
                (
                    planted_spec(
                        p,
                        prop_oneof![
                            3 => gadgets_plant(Palette::ExactT, false),
                            1 => pivot_plant(Palette::ExactT)
                        ]
                        .boxed(),
                        2,
                    ),
                    prop::collection::vec((any::<u16>(), 0..MAXV), 0..=6),
                    any::<u32>(),
                )
                    .prop_map(|(spec, vars, mask)| PlantedCase { spec, vars, mask })
            },
            |c: &PlantedCase, obs| check_procs_case(&planted_diag(c), &c.spec.host.plan, c.mask, obs),
        ),
        Section::random(
            "measure-circuits",
            ctx.cases(2000, 40000),
            move || {
                circ_spec(CircParams {
                    min_q: 1,
                    max_q: 4,
                    max_gates: t.pick(14, 22),
                    kinds: mkinds.clone(),
                    palette: Palette::ExactT,
                    max_var: 3,
                })
                .prop_map(|circ| CircCase { circ })
            },
            check_circ,
        ),
    ];
    PropertyDef {
        id: "C10",
        rule: "diagrams whose spiders carry XORs of variables b0..b3 (variable 0 included), general / graph-like / with planted gadget and pivot pairs; every primitive rule where its matcher accepts and every simplifier; for each of the 16 assignments the harness instantiates before and after (pi where the parity is odd, scalar factors whose condition holds multiplied in) and compares tensors exactly. Circuits with measure_d / measure_r (explicit and fresh variables): to_graph instantiated under every outcome assignment vs the simulator with the corresponding projections. Non-trivial = a rule fired at/next to a vertex carrying variables or the result carries a conditioned scalar factor; circuit containing a measurement. Distinct by (case, rule, arguments).",
        assumptions: vec![
            "harness evaluator / simulator (see selftest)",
            "fresh measurement variables are numbered from one past the largest explicit variable, in gate order (the translation's observable numbering)",
        ],
        sections,
    }
}
