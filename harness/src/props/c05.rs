//! C05 — stabiliser decomposition computes the exact scalar for every driver and mode.

use super::common::*;
use crate::engine::{mix, Ctx, Obs, PropertyDef, Section};
use crate::gen::circ::{circ_spec, clifford_t_kinds, CircParams, CircSpec};
use crate::gen::diag::{diag_spec, DiagParams, Palette};
use crate::gen::plant::{cat_plant, gadgets_plant, pivot_plant, planted_spec, PlantedSpec};
use crate::oracle::diag::{build, read_scalar, snapshot, Diag, IdPlan, MScalar, VK};
use crate::oracle::ring::{Ring, Zw};
use crate::oracle::zxeval::{self, EvalErr};
use proptest::prelude::*;
use quizx::decompose::{
    verif_apply_decomp, BssTOnlyDriver, BssWithCatsDriver, Decomp, Decomposer, Driver,
    DynamicTDriver, SherlockDriver, SimpFunc, SpiderCuttingDriver,
};
use quizx::graph::{BasisElem, EType, GraphLike, VType, V};
use serde::{Deserialize, Serialize};
use std::sync::{Arc, Mutex};

// ------------------------------------------------------------------------------------------
// drivers

fn decomp_class(d: &Decomp, g: &impl GraphLike) -> &'static str {
    match d {
        Decomp::CatDecomp(v) => match v.len().saturating_sub(1) {
            3 => "step:cat3",
            4 => "step:cat4",
            5 => "step:cat5",
            6 => "step:cat6",
            _ => "step:cat?",
        },
        Decomp::Magic5FromCat(_) => "step:magic5",
        Decomp::TDecomp(v) => match v.len() {
            6 => "step:bss6",
            1 => "step:single(t)",
            0 => "step:tdecomp-empty",
            _ => "step:sym-pair",
        },
        Decomp::BssDecomp(_) => "step:bss6",
        Decomp::SymDecomp(_) => "step:sym-pair",
        Decomp::SingleDecomp(_) => "step:single",
        Decomp::SpiderCuttingDecomp(_) => "step:spider-cut",
        Decomp::TPairDecomp(_) => {
            let _ = g;
            "step:t-pair"
        }
    }
}

/// Wraps a driver and records which replacement fired.
#[derive(Clone, Debug)]
struct Logging<D: Driver> {
    inner: D,
    log: Arc<Mutex<Vec<&'static str>>>,
}

impl<D: Driver> std::fmt::Display for Logging<D> {
    fn fmt(&self, f: &mut std::fmt::Formatter<'_>) -> std::fmt::Result {
        write!(f, "Logging({})", self.inner)
    }
}

impl<D: Driver> Driver for Logging<D> {
    fn choose_decomp(&self, g: &impl GraphLike) -> Decomp {
        let d = self.inner.choose_decomp(g);
        self.log.lock().unwrap().push(decomp_class(&d, g));
        d
    }
}

/// Wraps a driver and audits every step of a real run: the terms of the chosen decomposition
/// (through the one-step hook) must sum to the value of the diagram they replace.  The first
/// discrepancy is kept; the run itself goes on unchanged.
#[derive(Clone, Debug)]
struct Audit<D: Driver> {
    inner: D,
    first_error: Arc<Mutex<Option<String>>>,
    steps: Arc<Mutex<usize>>,
}

impl<D: Driver> std::fmt::Display for Audit<D> {
    fn fmt(&self, f: &mut std::fmt::Formatter<'_>) -> std::fmt::Result {
        write!(f, "Audit({})", self.inner)
    }
}

impl<D: Driver> Driver for Audit<D> {
    fn choose_decomp(&self, g: &impl GraphLike) -> Decomp {
        let d = self.inner.choose_decomp(g);
        *self.steps.lock().unwrap() += 1;
        if self.first_error.lock().unwrap().is_some() || !g.inputs().is_empty() || !g.outputs().is_empty() {
            return d;
        }
        let value = |h: &dyn Fn() -> Result<Option<Vec<Zw>>, String>| h();
        let res: Result<(), String> = (|| {
            let Some(want) = value(&|| tensor_of(g))? else { return Ok(()) };
            if matches!(&d, Decomp::TDecomp(v) if v.is_empty()) {
                return Ok(());
            }
            let terms = crate::engine::catch(|| verif_apply_decomp(g, &d)).map_err(|p| format!("apply {d} panicked: {p}"))?;
            let mut sum = Zw::ZERO;
            for t in &terms {
                let Some(x) = tensor_of(t)? else { return Ok(()) };
                sum = sum.add(&x[0]);
            }
            if sum != want[0] {
                let snap = snapshot(g).map(|s| format!("{:?}", s.diag)).unwrap_or_default();
                return Err(format!(
                    "step {} of the run: the {} terms of {d} sum to {sum:?}, the diagram they replace denotes {:?}; diagram: {}",
                    *self.steps.lock().unwrap(),
                    terms.len(),
                    want[0],
                    snap.chars().take(1500).collect::<String>()
                ));
            }
            Ok(())
        })();
        if let Err(e) = res {
            *self.first_error.lock().unwrap() = Some(e);
        }
        d
    }
}

/// Draws valid, T-count-reducing decompositions from a generated word stream.
#[derive(Clone, Debug)]
struct Scripted {
    words: Arc<Mutex<(Vec<u64>, usize)>>,
}

impl std::fmt::Display for Scripted {
    fn fmt(&self, f: &mut std::fmt::Formatter<'_>) -> std::fmt::Result {
        write!(f, "Scripted")
    }
}

impl Scripted {
    fn next(&self) -> u64 {
        let mut w = self.words.lock().unwrap();
        let pos = w.1;
        w.1 += 1;
        if pos < w.0.len() {
            mix(w.0[pos], 77)
        } else {
            mix(pos as u64, 991)
        }
    }
    fn pick<T: Copy>(&self, xs: &[T]) -> T {
        xs[(self.next() % xs.len() as u64) as usize]
    }
    fn pick_k(&self, xs: &[V], k: usize) -> Vec<V> {
        let mut pool = xs.to_vec();
        let mut out = vec![];
        for _ in 0..k {
            let i = (self.next() % pool.len() as u64) as usize;
            out.push(pool.remove(i));
        }
        out
    }
}

fn cats_of(g: &impl GraphLike) -> Vec<Vec<V>> {
    let mut out = vec![];
    let mut vs: Vec<V> = g.vertices().collect();
    vs.sort();
    for v in vs {
        if g.vertex_type(v) == VType::Z && g.phase(v).is_pauli() && g.vars(v).is_empty() {
            let mut nb = g.neighbor_vec(v);
            nb.sort();
            // quizx's cat decomposition is specified on graph-like neighbourhoods ("the graph g is
            // assumed to be graph-like", cat_ts): every leg may only have Hadamard edges to Z
            // spiders - without inter-step simplification earlier replacements leave plain edges
            if (3..=6).contains(&nb.len())
                && nb.iter().all(|&n| {
                    g.vertex_type(n) == VType::Z
                        && g.phase(n).is_t()
                        && g.edge_type(v, n) == EType::H
                        && g.incident_edges(n).all(|(m, et)| g.vertex_type(m) == VType::Z && et == EType::H)
                })
            {
                let mut c = vec![v];
                c.extend(nb);
                out.push(c);
            }
        }
    }
    out
}

impl Driver for Scripted {
    fn choose_decomp(&self, g: &impl GraphLike) -> Decomp {
        let mut ts: Vec<V> = g
            .vertices()
            .filter(|&v| g.vertex_type(v) == VType::Z && g.phase(v).is_t())
            .collect();
        ts.sort();
        let cats = cats_of(g);
        // graph-like neighbourhood needed for spider cutting
        let cuttable: Vec<V> = ts
            .iter()
            .copied()
            .filter(|&v| {
                g.incident_edges(v)
                    .all(|(n, et)| g.vertex_type(n) == VType::Z && et == EType::H)
            })
            .collect();
        let mut kinds: Vec<u8> = vec![];
        if !ts.is_empty() {
            kinds.push(0); // single
        }
        if ts.len() >= 2 {
            kinds.push(1); // sym pair
        }
        if ts.len() >= 5 {
            kinds.push(2); // magic5
        }
        if ts.len() >= 6 {
            kinds.push(3); // bss
            kinds.push(3);
        }
        if !cats.is_empty() {
            kinds.push(4);
            kinds.push(4);
        }
        if !cuttable.is_empty() {
            kinds.push(5);
        }
        if kinds.is_empty() {
            // an X spider carrying the T phase etc.: fall back to the library's first-T choice
            return BssTOnlyDriver { random_t: false }.choose_decomp(g);
        }
        match self.pick(&kinds) {
            0 => Decomp::SingleDecomp(self.pick_k(&ts, 1)),
            1 => Decomp::SymDecomp(self.pick_k(&ts, 2)),
            2 => Decomp::Magic5FromCat(self.pick_k(&ts, 5)),
            3 => {
                if self.next() % 2 == 0 {
                    Decomp::BssDecomp(self.pick_k(&ts, 6))
                } else {
                    Decomp::TDecomp(self.pick_k(&ts, 6))
                }
            }
            4 => Decomp::CatDecomp(cats[(self.next() % cats.len() as u64) as usize].clone()),
            _ => Decomp::SpiderCuttingDecomp(self.pick_k(&cuttable, 1)),
        }
    }
}

// ------------------------------------------------------------------------------------------

#[derive(Clone, Debug, Serialize, Deserialize)]
pub struct Config {
    pub simp: u8,
    pub split: bool,
    /// 0 = sequential only; k > 0: also parallel in a pool of k threads
    pub threads: u8,
    pub sherlock: [u8; 3],
    pub words: Vec<u64>,
}

fn simp_of(s: u8) -> SimpFunc {
    match s % 3 {
        0 => SimpFunc::NoSimp,
        1 => SimpFunc::CliffordSimp,
        _ => SimpFunc::FullSimp,
    }
}

fn exact_value(d: &Diag) -> Result<Option<Zw>, String> {
    match zxeval::eval::<Zw>(d) {
        Ok(t) => {
            if t.data.len() != 1 {
                return Err("diagram is not closed".into());
            }
            Ok(Some(t.data[0]))
        }
        Err(EvalErr::TooBig) => Ok(None),
        Err(e) => Err(format!("{e:?}")),
    }
}

fn zw_scalar(s: &quizx::scalar::Scalar4) -> Result<Zw, String> {
    match read_scalar(s) {
        MScalar::Exact(z) => Ok(z),
        MScalar::Float(re, im) => Err(format!("result scalar is flagged approximate ({re}+{im}i)")),
    }
}

/// rayon pools are shared by all shards (building one per call costs thread start-up)
fn pool_of(k: usize) -> Arc<rayon::ThreadPool> {
    use std::collections::BTreeMap;
    use std::sync::OnceLock;
    static POOLS: OnceLock<Mutex<BTreeMap<usize, Arc<rayon::ThreadPool>>>> = OnceLock::new();
    let m = POOLS.get_or_init(|| Mutex::new(BTreeMap::new()));
    let mut g = m.lock().unwrap();
    g.entry(k)
        .or_insert_with(|| {
            Arc::new(
                rayon::ThreadPoolBuilder::new()
                    .num_threads(k)
                    .build()
                    .expect("rayon pool"),
            )
        })
        .clone()
}

fn run_driver<G: GraphLike, D: Driver>(
    g: &G,
    driver: D,
    name: &str,
    cfg: &Config,
    want: &Zw,
    nosimp_ok: bool,
    obs: &mut Obs,
) -> Result<(), String> {
    let simps: Vec<SimpFunc> = if nosimp_ok {
        vec![simp_of(cfg.simp), SimpFunc::FullSimp]
    } else {
        let s = simp_of(cfg.simp);
        vec![if s == SimpFunc::NoSimp { SimpFunc::CliffordSimp } else { s }, SimpFunc::FullSimp]
    };
    for (si, simp) in simps.into_iter().enumerate() {
        if si == 1 && simp == simp_of(cfg.simp) {
            continue;
        }
        for split in [cfg.split, !cfg.split] {
            let log = Arc::new(Mutex::new(vec![]));
            let audit_main = Arc::new(Mutex::new(None));
            let ld = Logging {
                inner: Audit {
                    inner: driver.clone(),
                    first_error: if si == 0 && split == cfg.split && cfg.words.len() % 4 == 0 { audit_main.clone() } else { Arc::new(Mutex::new(Some(String::new()))) },
                    steps: Arc::new(Mutex::new(0)),
                },
                log: log.clone(),
            };
            let what = format!("{name} simp={simp:?} split={split}");
            let mut d = Decomposer::new(g);
            d.with_simp(simp).with_split_graphs_components(split);
            let s = guarded(&format!("{what}: decompose"), || {
                d.decompose(&ld);
                d.scalar()
            })?;
            if let Some(e) = audit_main.lock().unwrap().clone() {
                return Err(format!("{what}: {e}"));
            }
            let got = zw_scalar(&s).map_err(|e| format!("{what}: {e}"))?;
            if got != *want {
                return Err(format!(
                    "{what}: decomposer returned {got:?} (≈ {}), the diagram denotes {want:?} (≈ {}); replacements: {:?}",
                    got.to_c64(),
                    want.to_c64(),
                    log.lock().unwrap()
                ));
            }
            let steps = log.lock().unwrap().clone();
            for st in &steps {
                obs.class(st);
            }
            if d.nterms >= 2 {
                obs.class("terms>=2");
            }
            obs.class_if(split, "split-on");
            // other routes to completion through the public interface (first option pair only)
            if si == 0 && split == cfg.split {
                // (a) partially, to a generated depth, then to the end
                let depth = (cfg.words.first().copied().unwrap_or(1) % 4) as i64;
                let mut d2 = Decomposer::new(g);
                d2.with_simp(simp).with_split_graphs_components(split);
                let s2 = guarded(&format!("{what}: decompose_until_depth({depth}) then decompose"), || {
                    d2.decompose_until_depth(depth, &driver);
                    d2.decompose(&driver);
                    d2.scalar()
                })?;
                let got2 = zw_scalar(&s2).map_err(|e| format!("{what}: {e}"))?;
                if got2 != *want {
                    return Err(format!(
                        "{what}: decompose_until_depth({depth}) followed by decompose returned {got2:?}, the diagram denotes {want:?}"
                    ));
                }
                obs.class("until-depth-then-complete");
                // (b) a decomposer that has already finished another target, re-targeted
                let mut d3 = Decomposer::new(g);
                match simp {
                    SimpFunc::FullSimp => {
                        d3.with_full_simp();
                    }
                    SimpFunc::CliffordSimp => {
                        d3.with_clifford_simp();
                    }
                    _ => {
                        d3.with_simp(simp);
                    }
                }
                d3.with_split_graphs_components(split);
                let log3 = Arc::new(Mutex::new(vec![]));
                let audit = Arc::new(Mutex::new(None));
                let ld3 = Logging {
                    inner: Audit {
                        inner: driver.clone(),
                        first_error: audit.clone(),
                        steps: Arc::new(Mutex::new(0)),
                    },
                    log: log3.clone(),
                };
                let s3 = guarded(&format!("{what}: decompose, set_target, decompose"), || {
                    d3.decompose(&ld3);
                    let first = d3.scalar();
                    log3.lock().unwrap().push("|");
                    d3.set_target(g.clone());
                    d3.decompose(&ld3);
                    (first, d3.scalar())
                })?;
                if let Some(e) = audit.lock().unwrap().clone() {
                    return Err(format!("{what}: {e}"));
                }
                obs.class("audited-run");
                for (k, s) in [(1, s3.0), (2, s3.1)] {
                    let got3 = zw_scalar(&s).map_err(|e| format!("{what}: {e}"))?;
                    if got3 != *want {
                        return Err(format!(
                            "{what}: run {k} of a re-targeted decomposer (set_target) returned {got3:?}, the diagram denotes {want:?}; replacements of the two runs: {:?}",
                            log3.lock().unwrap()
                        ));
                    }
                }
                obs.class("re-targeted");
            }
            // parallel == sequential
            if cfg.threads > 0 {
                let k = 1 + (cfg.threads as usize - 1) % 16;
                let pool = pool_of(k);
                let mut dp = Decomposer::new(g);
                dp.with_simp(simp).with_split_graphs_components(split);
                let ld2 = Logging {
                    inner: driver.clone(),
                    log: Arc::new(Mutex::new(vec![])),
                };
                let sp = guarded(&format!("{what}: decompose_parallel({k} threads)"), || {
                    pool.install(|| {
                        dp.decompose_parallel(&ld2);
                        dp.scalar()
                    })
                })?;
                let gotp = zw_scalar(&sp).map_err(|e| format!("{what} parallel: {e}"))?;
                if gotp != *want {
                    return Err(format!(
                        "{what}: decompose_parallel with {k} threads returned {gotp:?}, sequential/exact value {want:?}"
                    ));
                }
                obs.class("parallel");
            }
        }
    }
    Ok(())
}

fn check_closed<G: GraphLike>(
    g: &G,
    cfg: &Config,
    nosimp_ok: bool,
    backend: &str,
    obs: &mut Obs,
) -> Result<(), String> {
    let snap = snapshot(g)?;
    snap.diag.check_wellformed()?;
    let Some(want) = exact_value(&snap.diag)? else {
        obs.skip("oracle-too-big");
        return Ok(());
    };
    let tc = g.tcount();
    if tc >= 2 {
        obs.nontrivial();
    }
    let n = |s: &str| format!("{backend}: {s}");
    run_driver(g, BssTOnlyDriver { random_t: false }, &n("BssTOnly(first)"), cfg, &want, nosimp_ok, obs)?;
    run_driver(g, BssTOnlyDriver { random_t: true }, &n("BssTOnly(random)"), cfg, &want, nosimp_ok, obs)?;
    run_driver(g, BssWithCatsDriver { random_t: false }, &n("BssWithCats(first)"), cfg, &want, nosimp_ok, obs)?;
    run_driver(g, BssWithCatsDriver { random_t: true }, &n("BssWithCats(random)"), cfg, &want, nosimp_ok, obs)?;
    {
        // decompose_standard = BssWithCats(first) without a driver argument
        let simp = if nosimp_ok { simp_of(cfg.simp) } else { SimpFunc::FullSimp };
        let mut d = Decomposer::new(g);
        d.with_simp(simp).with_split_graphs_components(cfg.split);
        let what = n(&format!("decompose_standard simp={simp:?} split={}", cfg.split));
        let s = guarded(&what, || {
            d.decompose_standard();
            d.scalar()
        })?;
        let got = zw_scalar(&s).map_err(|e| format!("{what}: {e}"))?;
        if got != want {
            return Err(format!("{what}: returned {got:?}, the diagram denotes {want:?}"));
        }
    }
    run_driver(g, DynamicTDriver, &n("DynamicT"), cfg, &want, nosimp_ok, obs)?;
    let tries = vec![
        1 + cfg.sherlock[0] as usize % 4,
        cfg.sherlock[1] as usize % 3,
        cfg.sherlock[2] as usize % 3,
    ];
    run_driver(g, SherlockDriver { tries }, &n("Sherlock"), cfg, &want, nosimp_ok, obs)?;
    if nosimp_ok {
        // spider cutting needs graph-like neighbourhoods throughout
        run_driver(g, SpiderCuttingDriver, &n("SpiderCutting"), cfg, &want, nosimp_ok, obs)?;
        // scripted driver: sequential only (its script is consumed in call order)
        let seqcfg = Config {
            threads: 0,
            ..cfg.clone()
        };
        run_driver(
            g,
            Scripted {
                words: Arc::new(Mutex::new((cfg.words.clone(), 0))),
            },
            &n("Scripted"),
            &seqcfg,
            &want,
            nosimp_ok,
            obs,
        )?;
    }
    obs.classes.sort();
    obs.classes.dedup();
    Ok(())
}

/// limit the T-count of a model diagram by making surplus T-like phases Clifford
fn cap_tcount(d: &mut Diag, max_t: usize) {
    let mut seen = 0;
    for v in d.verts.iter_mut() {
        if v.kind != VK::B && v.phase.1 == 4 {
            seen += 1;
            if seen > max_t {
                v.phase = crate::oracle::diag::norm_phase((v.phase.0 - 1, 4));
            }
        }
    }
}

#[derive(Clone, Debug, Serialize, Deserialize)]
pub struct ClosedCase {
    pub spec: PlantedSpec,
    pub cfg: Config,
    pub hash: bool,
}

/// turn every boundary into a phase-free Z spider (closing the diagram)
fn close(d: &mut Diag) {
    for v in d.verts.iter_mut() {
        if v.kind == VK::B {
            v.kind = VK::Z;
        }
    }
    d.inputs.clear();
    d.outputs.clear();
    // boundary edges may have been plain: keep the diagram graph-like
    for e in d.edges.iter_mut() {
        e.2 = true;
    }
}

fn check_closed_case(c: &ClosedCase, max_t: usize, obs: &mut Obs) -> Result<(), String> {
    let mut d = c.spec.to_diag();
    close(&mut d);
    cap_tcount(&mut d, max_t);
    if c.hash {
        let (g, _) = build::<quizx::hash_graph::Graph>(&d, &c.spec.host.plan);
        check_closed(&g, &c.cfg, true, "hash", obs)
    } else {
        let (g, _) = build::<quizx::vec_graph::Graph>(&d, &c.spec.host.plan);
        check_closed(&g, &c.cfg, true, "vec", obs)
    }
}

#[derive(Clone, Debug, Serialize, Deserialize)]
pub struct CircCase {
    pub circ: CircSpec,
    pub ins: Vec<u8>,
    pub outs: Vec<u8>,
    pub cfg: Config,
}

fn basis(b: u8) -> BasisElem {
    match b % 4 {
        0 => BasisElem::Z0,
        1 => BasisElem::Z1,
        2 => BasisElem::X0,
        _ => BasisElem::X1,
    }
}

fn check_circ_case(c: &CircCase, max_t: usize, obs: &mut Obs) -> Result<(), String> {
    let mut m = c.circ.to_circ();
    // cap the T-count
    let mut seen = 0;
    m.gates.retain(|g| {
        if matches!(g.k, crate::oracle::csim::GK::T | crate::oracle::csim::GK::Tdg) {
            seen += 1;
            seen <= max_t
        } else {
            true
        }
    });
    let mut g: quizx::vec_graph::Graph = m.to_quizx().to_graph();
    let ins: Vec<BasisElem> = (0..m.n).map(|i| basis(c.ins.get(i).copied().unwrap_or(0))).collect();
    let outs: Vec<BasisElem> = (0..m.n).map(|i| basis(c.outs.get(i).copied().unwrap_or(0))).collect();
    g.plug_inputs(&ins);
    g.plug_outputs(&outs);
    obs.class("circuit-plugged");
    check_closed(&g, &c.cfg, false, "vec", obs)
}

// ------------------------------------------------------------------------------------------
// one-step clause

#[derive(Clone, Debug, Serialize, Deserialize)]
pub struct StepCase {
    pub spec: PlantedSpec,
    pub words: Vec<u64>,
    pub sherlock: [u8; 3],
}

fn tensor_of<G: GraphLike>(g: &G) -> Result<Option<Vec<Zw>>, String> {
    let snap = snapshot(g)?;
    snap.diag.check_wellformed()?;
    match zxeval::eval::<Zw>(&snap.diag) {
        Ok(t) => Ok(Some(t.data)),
        Err(EvalErr::TooBig) => Ok(None),
        Err(e) => Err(format!("{e:?}")),
    }
}

fn check_step_with<G: GraphLike, D: Driver>(g: &G, driver: &D, name: &str, obs: &mut Obs) -> Result<(), String> {
    let Some(want) = tensor_of(g).map_err(|e| format!("harness: host diagram: {e}"))? else {
        obs.skip("oracle-too-big");
        return Ok(());
    };
    let d = guarded(&format!("{name}: choose_decomp"), || driver.choose_decomp(g))?;
    let cls = decomp_class(&d, g);
    if cls == "step:tdecomp-empty" {
        return Ok(());
    }
    let terms = guarded(&format!("{name}: apply {d}"), || verif_apply_decomp(g, &d))?;
    let mut sum = vec![Zw::ZERO; want.len()];
    for (i, t) in terms.iter().enumerate() {
        let tt = match tensor_of(t) {
            Ok(Some(x)) => x,
            Ok(None) => {
                obs.skip("oracle-too-big");
                return Ok(());
            }
            Err(e) => {
                let open = !g.outputs().is_empty();
                let msg = format!("{name}: term {i} of {d} is not a well-formed diagram: {e}");
                if open && matches!(d, Decomp::CatDecomp(_)) && e.contains("carries a phase") {
                    return obs.known("cat-pi-hub-next-to-boundary", msg);
                }
                return Err(msg);
            }
        };
        if tt.len() != want.len() {
            return Err(format!("{name}: term {i} of {d} has a different arity"));
        }
        for k in 0..sum.len() {
            sum[k] = sum[k].add(&tt[k]);
        }
    }
    if sum != want {
        let k = (0..sum.len()).find(|&k| sum[k] != want[k]).unwrap();
        return Err(format!(
            "{name}: the {} terms of {d} sum to {:?} at entry {k}, the diagram denotes {:?}",
            terms.len(),
            sum[k],
            want[k]
        ));
    }
    obs.class(cls);
    obs.nontrivial_key(crate::engine::mix(cls.len() as u64, cls.as_bytes()[5] as u64));
    Ok(())
}

fn check_step(c: &StepCase, obs: &mut Obs) -> Result<(), String> {
    let mut d = c.spec.to_diag();
    cap_tcount(&mut d, 9);
    let (g, _) = build::<quizx::vec_graph::Graph>(&d, &c.spec.host.plan);
    if g.tcount() == 0 {
        obs.class("no-t");
        return Ok(());
    }
    obs.class_if(!d.outputs.is_empty() || !d.inputs.is_empty(), "open-host");
    check_step_with(&g, &BssTOnlyDriver { random_t: false }, "BssTOnly(first)", obs)?;
    check_step_with(&g, &BssTOnlyDriver { random_t: true }, "BssTOnly(random)", obs)?;
    check_step_with(&g, &BssWithCatsDriver { random_t: false }, "BssWithCats(first)", obs)?;
    check_step_with(&g, &BssWithCatsDriver { random_t: true }, "BssWithCats(random)", obs)?;
    if !d.outputs.is_empty() || !d.inputs.is_empty() {
        // on open hosts only the BSS-type drivers are in the property's domain (saved-terms clause)
        obs.classes.sort();
        obs.classes.dedup();
        return Ok(());
    }
    check_step_with(&g, &DynamicTDriver, "DynamicT", obs)?;
    check_step_with(
        &g,
        &SherlockDriver {
            tries: vec![1 + c.sherlock[0] as usize % 4, c.sherlock[1] as usize % 3, c.sherlock[2] as usize % 3],
        },
        "Sherlock",
        obs,
    )?;
    check_step_with(&g, &SpiderCuttingDriver, "SpiderCutting", obs)?;
    let s = Scripted {
        words: Arc::new(Mutex::new((c.words.clone(), 0))),
    };
    for _ in 0..3 {
        check_step_with(&g, &s, "Scripted", obs)?;
    }
    obs.classes.sort();
    obs.classes.dedup();
    Ok(())
}

// ------------------------------------------------------------------------------------------
// saved terms

#[derive(Clone, Debug, Serialize, Deserialize)]
pub struct SavedCase {
    pub spec: PlantedSpec,
    pub cats: bool,
    pub random_t: bool,
    pub simp: u8,
}

fn check_saved(c: &SavedCase, obs: &mut Obs) -> Result<(), String> {
    let mut d = c.spec.to_diag();
    cap_tcount(&mut d, 6);
    if d.outputs.is_empty() && d.inputs.is_empty() {
        obs.class("closed-host");
    }
    let (g, _) = build::<quizx::vec_graph::Graph>(&d, &c.spec.host.plan);
    let Some(want) = tensor_of(&g).map_err(|e| format!("harness: {e}"))? else {
        obs.skip("oracle-too-big");
        return Ok(());
    };
    let simp = simp_of(c.simp);
    let what = format!(
        "{} random_t={} simp={simp:?} save",
        if c.cats { "BssWithCats" } else { "BssTOnly" },
        c.random_t
    );
    let mut dec = Decomposer::new(&g);
    dec.with_simp(simp).with_split_graphs_components(false).with_save(true);
    guarded(&format!("{what}: decompose"), || {
        if c.cats {
            dec.decompose(&BssWithCatsDriver { random_t: c.random_t });
        } else {
            dec.decompose(&BssTOnlyDriver { random_t: c.random_t });
        }
    })?;
    if dec.done.len() != dec.nterms {
        return Err(format!("{what}: {} saved terms but nterms = {}", dec.done.len(), dec.nterms));
    }
    let mut sum = vec![Zw::ZERO; want.len()];
    let has_pi_cat = c.cats;
    for (i, t) in dec.done.iter().enumerate() {
        if t.tcount() != 0 {
            return Err(format!("{what}: saved term {i} still has T-count {}", t.tcount()));
        }
        let tt = match tensor_of(t) {
            Ok(Some(x)) => x,
            Ok(None) => {
                obs.skip("oracle-too-big");
                return Ok(());
            }
            Err(e) => {
                let msg = format!("{what}: saved term {i} is not a well-formed diagram: {e}");
                if has_pi_cat && !g.outputs().is_empty() {
                    return obs.known("cat-pi-hub-next-to-boundary", msg);
                }
                return Err(msg);
            }
        };
        if tt.len() != want.len() {
            return Err(format!("{what}: saved term {i} has a different arity"));
        }
        for k in 0..sum.len() {
            sum[k] = sum[k].add(&tt[k]);
        }
    }
    if sum != want {
        let k = (0..sum.len()).find(|&k| sum[k] != want[k]).unwrap();
        let msg = format!(
            "{what}: the {} saved stabiliser terms sum to {:?} at entry {k}, the diagram denotes {:?}",
            dec.done.len(),
            sum[k],
            want[k]
        );
        return Err(msg);
    }
    if g.tcount() >= 2 && dec.done.len() >= 2 && !d.outputs.is_empty() {
        obs.nontrivial();
    }
    Ok(())
}

fn config() -> BoxedStrategy<Config> {
    (
        0u8..3,
        any::<bool>(),
        prop_oneof![2 => Just(0u8), 1 => Just(1u8), 1 => Just(2u8), 1 => Just(3u8), 1 => Just(4u8), 1 => Just(8u8), 1 => Just(16u8)],
        prop::array::uniform3(0u8..8),
        prop::collection::vec(any::<u64>(), 0..=24),
    )
        .prop_map(|(simp, split, threads, sherlock, words)| Config {
            simp,
            split,
            threads,
            sherlock,
            words,
        })
        .boxed()
}

fn plants() -> BoxedStrategy<crate::gen::plant::Plant> {
    prop_oneof![
        5 => cat_plant(1),
        2 => gadgets_plant(Palette::ExactT, false),
        1 => pivot_plant(Palette::ExactT),
    ]
    .boxed()
}

pub fn def(ctx: &Ctx) -> PropertyDef {
    let t = ctx.tier;
    let max_t = t.pick(7, 9);
    let host = move |bnds: usize| {
        let mut p = DiagParams::graph_like(t.pick(7, 9), bnds, Palette::ExactT);
        p.general_scalar = true;
        p
    };
    let sections = vec![
        Section::random(
            "closed-graphlike",
            ctx.cases(500, 12000),
            move || {
                (planted_spec(host(0), plants(), 2), config(), any::<bool>())
                    .prop_map(|(spec, cfg, hash)| ClosedCase { spec, cfg, hash })
            },
            move |c: &ClosedCase, obs| check_closed_case(c, max_t, obs),
        ),
        Section::random(
            "closed-from-circuits",
            ctx.cases(300, 8000),
            move || {
                (
                    circ_spec(CircParams {
                        min_q: 2,
                        max_q: t.pick(5, 6),
                        max_gates: t.pick(40, 60),
                        // T-heavy: most T gates fuse or cancel under full_simp otherwise
                        kinds: {
                            let mut k = clifford_t_kinds();
                            k.push((6, crate::oracle::csim::GK::T));
                            k.push((3, crate::oracle::csim::GK::H));
                            k.push((3, crate::oracle::csim::GK::Cx));
                            k.push((1, crate::oracle::csim::GK::Ccz));
                            k
                        },
                        palette: Palette::ExactT,
                        max_var: 0,
                    }),
                    prop::collection::vec(0u8..4, 0..=4),
                    prop::collection::vec(0u8..4, 0..=4),
                    config(),
                )
                    .prop_map(|(circ, ins, outs, cfg)| CircCase { circ, ins, outs, cfg })
            },
            // the cap counts T gates before simplification; most of them fuse or cancel
            move |c: &CircCase, obs| check_circ_case(c, 2 * max_t, obs),
        ),
        Section::random(
            "one-step",
            ctx.cases(3000, 80000),
            move || {
                (
                    planted_spec(host(2), plants(), 2),
                    prop::collection::vec(any::<u64>(), 0..=24),
                    prop::array::uniform3(0u8..8),
                )
                    .prop_map(|(spec, words, sherlock)| StepCase { spec, words, sherlock })
            },
            check_step,
        ),
        Section::random(
            "saved-terms",
            ctx.cases(1000, 25000),
            move || {
                (planted_spec(host(3), plants(), 2), any::<bool>(), any::<bool>(), 0u8..3)
                    .prop_map(|(spec, cats, random_t, simp)| SavedCase {
                        spec,
                        cats,
                        random_t,
                        simp,
                    })
            },
            check_saved,
        ),
    ];
    PropertyDef {
        id: "C05",
        rule: "closed graph-like diagrams (Z spiders, Hadamard edges, phases k pi/4, T-count <= 7 (9), planted cat-3..6 stars with hub 0 or pi, gadgets, pivot pairs, several components) in both backends, and closed diagrams from Clifford+T circuits with basis states plugged (simplification enabled): Decomposer::scalar() read exactly == brute-force exact evaluation, for drivers BSS-only and BSS+cats (first/random T), dynamic-T, Sherlock (generated tries), spider-cutting and a scripted driver drawing valid decompositions from the generated stream, x {NoSimp, Clifford, Full} x split {off,on}; decompose_parallel in rayon pools of 1..16 threads == the same value. Audited runs: in the re-targeted runs and a quarter of the main runs every step the driver takes is audited through the one-step hook (terms must sum to the diagram they replace). One-step clause: sum of the evaluated terms of verif_apply_decomp(g, driver.choose_decomp(g)) == evaluated g on closed and open hosts. Saved-terms clause: open hosts, BSS-only / BSS+cats with saving, splitting off: every saved term has T-count 0 and the evaluated terms sum to the evaluated original. Non-trivial = T-count >= 2 (and >= 2 saved terms on an open host); per replacement kind for the step clause.",
        assumptions: vec![
            "harness evaluator (see selftest); the decomposer's scalar is read through the raw-parts hook",
            "the library's random drivers call rand::rng(): their choice is not a function of VERIF_SEED (the oracle does not depend on the choice)",
            "rayon's schedule is not controlled; the parallel clause is sampled over pool sizes",
        ],
        sections,
    }
}
