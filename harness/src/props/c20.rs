//! C20 — detection webs returned for a Pauli diagram are valid, independent and complete.

use super::common::*;
use crate::engine::{Ctx, Obs, PropertyDef, Section};
use crate::gen::diag::{diag_spec, DiagParams, DiagSpec, Palette};
use crate::oracle::diag::{mvert_data, Diag, VK};
use proptest::prelude::*;
use quizx::detection_webs::{detection_webs, Pauli};
use quizx::graph::{EType, GraphLike, VType, V};
use quizx::hash_graph::Graph;
use serde::{Deserialize, Serialize};
use std::collections::BTreeMap;

#[derive(Clone, Debug, Serialize, Deserialize)]
pub struct Case {
    pub spec: DiagSpec,
    /// extra boundaries on spiders (several on one spider)
    pub extra_bnds: Vec<u16>,
    /// numbering: 0 boundaries first, 1 boundaries last, 2 interleaved by keys, 3 reversed
    pub numbering: u8,
    pub keys: Vec<u16>,
    pub stride: u8,
}

fn model(c: &Case) -> Diag {
    let mut d = c.spec.to_diag();
    // the property's domain: plain edges only (whatever the spec says)
    for e in d.edges.iter_mut() {
        e.2 = false;
    }
    // no boundary-boundary wires (spec parameters guarantee it)
    let sp: Vec<usize> = (0..d.verts.len()).filter(|&i| d.verts[i].kind != VK::B).collect();
    for raw in &c.extra_bnds {
        if sp.is_empty() {
            break;
        }
        let v = sp[crate::gen::idx(*raw, sp.len())];
        let b = d.add_vert(VK::B, (0, 1));
        d.add_edge(v, b, false);
        d.outputs.push(b);
    }
    d
}

fn build_numbered(d: &Diag, numbering: u8, keys: &[u16], stride: usize) -> (Graph, Vec<V>) {
    let n = d.verts.len();
    let mut order: Vec<usize> = (0..n).collect();
    match numbering.min(3) {
        0 => order.sort_by_key(|&i| (d.verts[i].kind != VK::B, i)),
        1 => order.sort_by_key(|&i| (d.verts[i].kind == VK::B, i)),
        2 => order.sort_by_key(|&i| (keys.get(i).copied().unwrap_or(0), i)),
        _ => order.reverse(),
    }
    let mut names = vec![0usize; n];
    for (rank, &i) in order.iter().enumerate() {
        names[i] = rank * stride.max(1) + (stride.max(1) - 1);
    }
    match numbering {
        4 | 6 => {
            // scattered: distinct names drawn from 0..(stride+1)*n by the keys
            let mut pool: Vec<usize> = (0..(stride.max(1) + if numbering == 6 { 4 } else { 1 }) * n).collect();
            for i in 0..n {
                let k = keys.get(i).copied().unwrap_or((i * 7919) as u16);
                names[i] = pool.remove(crate::gen::idx(k, pool.len()));
            }
        }
        5 => {
            // ascending with irregular gaps
            let mut next = 0usize;
            for i in 0..n {
                next += keys.get(i).copied().unwrap_or(0) as usize % (2 * stride.max(1) + 1);
                names[i] = next;
                next += 1;
            }
        }
        _ => {}
    }
    let mut g = Graph::new();
    for i in 0..n {
        g.add_named_vertex_with_data(names[i], mvert_data(&d.verts[i])).unwrap();
    }
    for &(a, b, h) in &d.edges {
        g.add_edge_with_type(names[a], names[b], if h { EType::H } else { EType::N });
    }
    // odd numberings reach the same diagram through some history: refused insertions of names
    // that are taken, and a scaffold vertex with edges that is removed again
    if numbering % 2 == 1 && n > 0 {
        for i in 0..n.min(2) {
            let _ = g.add_named_vertex_with_data(names[i], mvert_data(&d.verts[i]));
        }
        let spiders: Vec<usize> = (0..n).filter(|&i| d.verts[i].kind != VK::B).collect();
        if !spiders.is_empty() {
            let t = g.add_vertex(quizx::graph::VType::Z);
            for &i in spiders.iter().take(2) {
                g.add_edge_with_type(t, names[i], EType::N);
            }
            g.remove_vertex(t);
        }
    }
    g.set_inputs(d.inputs.iter().map(|&i| names[i]).collect());
    g.set_outputs(d.outputs.iter().map(|&i| names[i]).collect());
    (g, names)
}

fn f2_rank(mut rows: Vec<Vec<u8>>) -> usize {
    let cols = rows.first().map(|r| r.len()).unwrap_or(0);
    let mut rank = 0;
    for c in 0..cols {
        if let Some(p) = (rank..rows.len()).find(|&i| rows[i][c] == 1) {
            rows.swap(rank, p);
            let pr = rows[rank].clone();
            for i in 0..rows.len() {
                if i != rank && rows[i][c] == 1 {
                    for k in 0..cols {
                        rows[i][k] ^= pr[k];
                    }
                }
            }
            rank += 1;
        }
    }
    rank
}

struct WebCheck {
    dim_returned: usize,
    dim_space: usize,
}

/// Validate the returned webs against the edge-level constraint system of `g` (as left by the call).
fn validate(g: &Graph, webs: &[quizx::detection_webs::PauliWeb]) -> Result<WebCheck, String> {
    let mut edges: Vec<(V, V)> = g.edges().map(|(a, b, _)| (a.min(b), a.max(b))).collect();
    edges.sort();
    let eidx: BTreeMap<(V, V), usize> = edges.iter().enumerate().map(|(i, &e)| (e, i)).collect();
    let ne = edges.len();
    for (a, b, et) in g.edges() {
        if et != EType::N {
            return Err(format!("edge ({a},{b}) of the processed diagram is not plain"));
        }
    }
    // constraint rows over variables [x_0..x_{ne-1}, z_0..z_{ne-1}]
    let mut cons: Vec<Vec<u8>> = vec![];
    let mut vs: Vec<V> = g.vertices().collect();
    vs.sort();
    for &v in &vs {
        let legs: Vec<usize> = g
            .neighbors(v)
            .map(|w| eidx[&(v.min(w), v.max(w))])
            .collect();
        match g.vertex_type(v) {
            VType::B => {
                for &e in &legs {
                    let mut r = vec![0u8; 2 * ne];
                    r[e] = 1;
                    cons.push(r);
                    let mut r = vec![0u8; 2 * ne];
                    r[ne + e] = 1;
                    cons.push(r);
                }
            }
            t @ (VType::Z | VType::X) => {
                // own Pauli (X-type for a Z spider) equal on all legs; the other even
                let (own, other) = if t == VType::Z { (0, ne) } else { (ne, 0) };
                for w in legs.windows(2) {
                    let mut r = vec![0u8; 2 * ne];
                    r[own + w[0]] ^= 1;
                    r[own + w[1]] ^= 1;
                    cons.push(r);
                }
                let mut r = vec![0u8; 2 * ne];
                for &e in &legs {
                    r[other + e] ^= 1;
                }
                cons.push(r);
            }
            t => return Err(format!("vertex {v} has the unsupported type {t:?}")),
        }
    }
    let rank = f2_rank(cons.clone());
    let dim_space = 2 * ne - rank;
    // webs as vectors
    let mut vecs: Vec<Vec<u8>> = vec![];
    for (k, w) in webs.iter().enumerate() {
        let mut v = vec![0u8; 2 * ne];
        for (&(a, b), p) in &w.edge_operators {
            let Some(&e) = eidx.get(&(a.min(b), a.max(b))) else {
                return Err(format!("web {k} marks ({a},{b}), which is not an edge of the diagram"));
            };
            match p {
                Pauli::X => v[e] = 1,
                Pauli::Z => v[ne + e] = 1,
                Pauli::Y => {
                    v[e] = 1;
                    v[ne + e] = 1;
                }
            }
        }
        // boundary edges unmarked + spider constraints
        for (ci, r) in cons.iter().enumerate() {
            let dot: u8 = r.iter().zip(v.iter()).fold(0, |a, (x, y)| a ^ (x & y));
            if dot != 0 {
                // describe
                let marked: Vec<String> = w
                    .edge_operators
                    .iter()
                    .map(|(e, p)| format!("{e:?}:{p:?}"))
                    .collect();
                return Err(format!(
                    "web {k} violates constraint #{ci} (boundary edge unmarked / own-colour Pauli on all-or-none legs / other Pauli on an even number of legs); web: {marked:?}"
                ));
            }
        }
        vecs.push(v);
    }
    let dim_returned = f2_rank(vecs.clone());
    if dim_returned != webs.len() {
        return Err(format!(
            "the {} returned webs are linearly dependent (rank {dim_returned}){}",
            webs.len(),
            if vecs.iter().any(|v| v.iter().all(|&x| x == 0)) { "; one of them is empty" } else { "" }
        ));
    }
    Ok(WebCheck {
        dim_returned,
        dim_space,
    })
}

fn run_one(d: &Diag, numbering: u8, keys: &[u16], stride: usize) -> Result<(usize, usize), String> {
    let (mut g, _) = build_numbered(d, numbering, keys, stride);
    let ins = g.inputs().clone();
    let outs = g.outputs().clone();
    let webs = guarded(&format!("detection_webs (numbering {numbering})"), || detection_webs(&mut g))?;
    if *g.inputs() != ins || *g.outputs() != outs {
        return Err(format!("numbering {numbering}: inputs/outputs were not restored"));
    }
    let wc = validate(&g, &webs).map_err(|e| format!("numbering {numbering}: {e}"))?;
    if wc.dim_returned != wc.dim_space {
        return Err(format!(
            "numbering {numbering}: {} webs returned but the space of valid detection webs has dimension {}",
            wc.dim_returned, wc.dim_space
        ));
    }
    // a second call on the diagram as the first call left it (made bipartite): valid,
    // independent and complete again, same number of webs
    {
        let webs2 = guarded(&format!("detection_webs, second call (numbering {numbering})"), || detection_webs(&mut g))?;
        if *g.inputs() != ins || *g.outputs() != outs {
            return Err(format!("numbering {numbering}: inputs/outputs were not restored by the second call"));
        }
        let wc2 = validate(&g, &webs2).map_err(|e| format!("numbering {numbering}, second call: {e}"))?;
        if wc2.dim_returned != wc2.dim_space || wc2.dim_returned != wc.dim_returned {
            return Err(format!(
                "numbering {numbering}: a second call returns {} webs (space dimension {}), the first returned {}",
                wc2.dim_returned, wc2.dim_space, wc.dim_returned
            ));
        }
    }
    Ok((wc.dim_returned, g.num_vertices()))
}

fn check(c: &Case, obs: &mut Obs) -> Result<(), String> {
    let d = model(c);
    let stride = 1 + (c.stride as usize % 3);
    let mut dims = vec![];
    let mut first_err: Option<(u8, String)> = None;
    for numbering in [0u8, 1, 2, 3, 4, 5, 6] {
        match run_one(&d, numbering, &c.keys, if numbering == 0 { 1 } else { stride }) {
            Ok((dim, _)) => dims.push((numbering, dim)),
            Err(e) => {
                if first_err.is_none() {
                    first_err = Some((numbering, e));
                }
            }
        }
    }
    let has_isolated = (0..d.verts.len()).any(|v| d.verts[v].kind != VK::B && d.degree(v) == 0);
    obs.class_if(has_isolated, "isolated-spider");
    if let Some((numbering, e)) = first_err {
        // classifiers of the two recorded findings
        if e.contains("one of them is empty") && has_isolated {
            return obs.known(
                "detection-webs-isolated-spider-empty-web",
                format!("an isolated spider yields an empty (linearly dependent) web: {e}"),
            );
        }
        if numbering != 0 && dims.iter().any(|&(n, _)| n == 0) {
            return obs.known(
                "detection-webs-numbering-dependent",
                format!("the result depends on the vertex numbering (fine with boundaries numbered first): {e}"),
            );
        }
        return Err(e);
    }
    let d0 = dims[0].1;
    if dims.iter().any(|&(_, x)| x != d0) {
        return Err(format!("number of webs depends on the numbering: {dims:?}"));
    }
    if d0 >= 1 {
        obs.nontrivial();
        obs.class("webs>=1");
    }
    obs.class_if(d.inputs.len() + d.outputs.len() > 0, "has-boundaries");
    Ok(())
}

pub fn def(ctx: &Ctx) -> PropertyDef {
    let t = ctx.tier;
    let ms = t.pick(8, 10);
    let mk = move |dense: bool| {
        move || {
            let mut p = DiagParams::general(ms, 4, Palette::Pauli);
            p.allow_plain = true;
            p.allow_bnd_h = false;
            p.max_wires = 0;
            p.general_scalar = false;
            p.dense = dense;
            (
                diag_spec(p).prop_map(|mut s| {
                    for e in s.edges.iter_mut() {
                        e.2 = false; // plain edges only
                    }
                    s
                }),
                prop::collection::vec(any::<u16>(), 0..=2),
                0u8..4,
                prop::collection::vec(any::<u16>(), 0..=16),
                0u8..3,
            )
                .prop_map(|(spec, extra_bnds, numbering, keys, stride)| Case {
                    spec,
                    extra_bnds,
                    numbering,
                    keys,
                    stride,
                })
        }
    };
    PropertyDef {
        id: "C20",
        rule: "random diagrams over Z/X spiders with phases 0/pi and plain edges, 0-8 (10) spiders, 0-6 boundaries attached anywhere (several on one spider, isolated spiders included), each built in the hash backend under seven vertex numberings (boundaries first, last, interleaved, reversed with uniform strides; distinct names scattered over 0..2n-8n; ascending with irregular gaps; every other numbering reaches the diagram through a history with refused insertions of taken names and a scaffold vertex that is removed again). On the diagram as left by detection_webs (bipartite): every returned web satisfies the harness's own edge-level constraint system (boundary edges unmarked; at every spider its own colour's Pauli on all legs or none and the other Pauli on an even number of legs), the webs are linearly independent over F2, their number equals the dimension of that system's solution space (so they span it), the number does not depend on the numbering, inputs/outputs are restored, no panic. Non-trivial = the web space has dimension >= 1. Distinct by hash of the case.",
        assumptions: vec![
            "edge-level linear system over F2 written for the harness (2 unknowns per edge), independent of the firing-vector formulation used by the library",
            "boundary-boundary wires and Hadamard edges are outside the property's domain and not generated",
        ],
        sections: vec![
            Section::random("sparse", ctx.cases(2500, 60000), mk(false), check),
            Section::random("dense", ctx.cases(1500, 30000), mk(true), check),
        ],
    }
}
