//! C03 — optimise-and-extract returns an equivalent circuit over the basic gate set (library and CLI).

use super::common::*;
use crate::engine::{Ctx, Obs, PropertyDef, Section};
use crate::gen::circ::{circ_spec, unitary_kinds, CircParams, CircSpec};
use crate::gen::diag::Palette;
use crate::oracle::csim::{self, Circ};
use crate::oracle::ring::{proportional_close, proportional_exact, Ring, Zw, C64};
use proptest::prelude::*;
use quizx::circuit::Circuit;
use quizx::extract::ToCircuit;
use quizx::gate::GType;
use quizx::graph::GraphLike;
use serde::{Deserialize, Serialize};
use std::sync::atomic::{AtomicU64, Ordering};

#[derive(Clone, Debug, Serialize, Deserialize)]
pub struct Case {
    pub circ: CircSpec,
}

#[derive(Clone, Copy, Debug, PartialEq)]
enum Simp {
    Flow,
    Clifford,
    Full,
}

#[derive(Clone, Copy, Debug, PartialEq)]
enum Ext {
    Gflow,
    SimpleGauss,
    NoGauss,
}

fn allowed_gate(t: GType) -> bool {
    matches!(
        t,
        GType::HAD | GType::ZPhase | GType::CZ | GType::CNOT | GType::SWAP
    )
}

/// Is `m` (row-major dim x dim) a non-zero scalar times a qubit-permutation matrix?
fn is_scaled_qubit_perm<R: Ring>(m: &[Vec<R>], n: usize, close: bool) -> bool {
    let dim = 1usize << n;
    let is_zero = |x: &R| {
        if close {
            x.to_c64().norm() < 1e-7
        } else {
            x.is_zero()
        }
    };
    // image of each single-bit column
    let mut pi = vec![0usize; n];
    for q in 0..n {
        let col = 1usize << (n - 1 - q);
        let rows: Vec<usize> = (0..dim).filter(|&r| !is_zero(&m[r][col])).collect();
        if rows.len() != 1 || rows[0].count_ones() != 1 {
            return false;
        }
        pi[q] = rows[0];
    }
    let lam = m[0][0].clone();
    if is_zero(&lam) {
        return false;
    }
    for c in 0..dim {
        let mut img = 0usize;
        for q in 0..n {
            if (c >> (n - 1 - q)) & 1 == 1 {
                img |= pi[q];
            }
        }
        for r in 0..dim {
            if r == img {
                let d = m[r][c].add(&lam.neg());
                if !is_zero(&d) {
                    return false;
                }
            } else if !is_zero(&m[r][c]) {
                return false;
            }
        }
    }
    // pi must be a permutation
    let mut seen = 0usize;
    for q in 0..n {
        seen |= pi[q];
    }
    seen == dim - 1
}

fn verify_extracted<R: Ring>(
    orig: &Circ,
    ext: &Circuit,
    up_to_perm: bool,
    what: &str,
    obs: &mut Obs,
) -> Result<(), String> {
    if ext.num_qubits() != orig.n {
        return Err(format!(
            "{what}: extracted circuit has {} qubits, the source has {}",
            ext.num_qubits(),
            orig.n
        ));
    }
    for g in &ext.gates {
        if !allowed_gate(g.t) {
            return Err(format!("{what}: extracted circuit contains a {:?} gate", g.t));
        }
        if g.qs.iter().any(|&q| q >= orig.n) {
            return Err(format!("{what}: extracted gate on a qubit out of range: {g:?}"));
        }
    }
    let emodel = Circ::from_quizx(ext).ok_or("unknown gate")?;
    if emodel
        .gates
        .iter()
        .any(|g| matches!(g.k, csim::GK::Cx | csim::GK::Cz))
    {
        obs.class("extracted-has-cnot/cz");
    }
    let ue = csim::unitary::<R>(&emodel).map_err(|e| format!("{what}: {e:?}"))?;
    let uo = csim::unitary::<R>(orig).map_err(|e| format!("{what}: {e:?}"))?;
    let close = !R::exact();
    if !up_to_perm {
        let (fe, fo) = (csim::flatten(&ue), csim::flatten(&uo));
        let ok = if close {
            let a: Vec<C64> = fe.iter().map(|x| C64(x.to_c64())).collect();
            let b: Vec<C64> = fo.iter().map(|x| C64(x.to_c64())).collect();
            proportional_close(&a, &b, 1e-8)
        } else {
            let a: Vec<Zw> = fe.iter().map(|x| Zw::from_any(x)).collect();
            let b: Vec<Zw> = fo.iter().map(|x| Zw::from_any(x)).collect();
            proportional_exact(&a, &b) && a.iter().any(|x| !x.is_zero())
        };
        if !ok {
            return Err(format!(
                "{what}: extracted circuit is not equivalent to the source up to a scalar; extracted = {}",
                ext.to_string().replace('\n', " ")
            ));
        }
    } else {
        let m = csim::matmul(&csim::dagger(&ue), &uo);
        if !is_scaled_qubit_perm(&m, orig.n, close) {
            return Err(format!(
                "{what}: up-to-permutation extraction: U_ext^dagger U_orig is not a scalar times a qubit permutation; extracted = {}",
                ext.to_string().replace('\n', " ")
            ));
        }
        // is the permutation non-trivial?
        let dim = 1usize << orig.n;
        let trivial = (0..dim).all(|i| !(if close { m[i][i].to_c64().norm() < 1e-7 } else { m[i][i].is_zero() }));
        obs.class_if(!trivial, "final-permutation-nontrivial");
    }
    Ok(())
}

impl Zw {
    fn from_any<R: Ring>(x: &R) -> Zw {
        let any: &dyn std::any::Any = x;
        *any.downcast_ref::<Zw>().expect("exact ring is Zw")
    }
}

fn check_backend<R: Ring, G: GraphLike + ToCircuit>(
    c: &Circ,
    backend: &str,
    obs: &mut Obs,
) -> Result<(), String> {
    let qc = c.to_quizx();
    for simp in [Simp::Flow, Simp::Clifford, Simp::Full] {
        let mut g: G = guarded("to_graph", || qc.to_graph())?;
        guarded(&format!("{backend}: {simp:?} simplification"), || match simp {
            Simp::Flow => {
                quizx::simplify::flow_simp(&mut g);
            }
            Simp::Clifford => {
                quizx::simplify::clifford_simp(&mut g);
            }
            Simp::Full => {
                quizx::simplify::full_simp(&mut g);
            }
        })?;
        // gadgets present before extraction?
        let has_gadget = g
            .vertices()
            .any(|v| g.degree(v) == 1 && g.vertex_type(v) == quizx::graph::VType::Z);
        obs.class_if(has_gadget, "gadgets-before-extraction");
        // the plain entry point: to_circuit() (no options, by reference) - twice
        {
            let what = format!("{backend}: {simp:?}+to_circuit()");
            let snap0 = crate::oracle::diag::snapshot(&g).map(|s| s.diag);
            let r1 = guarded(&what, || g.to_circuit())?.map_err(|e| format!("{what}: extraction failed: {}", e.0))?;
            verify_extracted::<R>(c, &r1, false, &what, obs)?;
            if crate::oracle::diag::snapshot(&g).map(|s| s.diag) != snap0 {
                return Err(format!("{what}: the diagram passed by reference was modified"));
            }
            let r2 = guarded(&what, || g.to_circuit())?.map_err(|e| format!("{what}: second call failed: {}", e.0))?;
            verify_extracted::<R>(c, &r2, false, &format!("{what} (second call)"), obs)?;
        }
        let mut exts = vec![Ext::Gflow, Ext::SimpleGauss];
        if simp == Simp::Flow {
            exts.push(Ext::NoGauss);
        }
        for ext in exts {
            for perm in [false, true] {
                let what = format!("{backend}: {simp:?}+{ext:?}{}", if perm { "+up_to_perm" } else { "" });
                let mut h = g.clone();
                let r = guarded(&what, || {
                    let mut e = h.extractor();
                    match ext {
                        Ext::Gflow => e.gflow(),
                        Ext::SimpleGauss => e.gflow_simple_gauss(),
                        Ext::NoGauss => e.flow(),
                    };
                    if perm {
                        e.up_to_perm();
                    }
                    e.extract()
                })?;
                let circ = match r {
                    Ok(c) => c,
                    Err(e) => {
                        return Err(format!("{what}: extraction failed: {}", e.0));
                    }
                };
                verify_extracted::<R>(c, &circ, perm, &what, obs)?;
            }
        }
    }
    Ok(())
}

// ------------------------------------------------------------------------------------------
// wide circuits (7-9 qubits): full unitaries get expensive, so equivalence is probed on state
// vectors: random product inputs (one vector = a generic combination of all columns), and for
// the up-to-permutation mode single-excitation probes that read the permutation off exactly

fn adjoint_model(c: &Circ) -> Circ {
    use csim::GK;
    let gates = c
        .gates
        .iter()
        .rev()
        .map(|g| {
            let mut h = g.clone();
            h.phase = (-g.phase.0, g.phase.1);
            h.k = match g.k {
                GK::S => GK::Sdg,
                GK::Sdg => GK::S,
                GK::T => GK::Tdg,
                GK::Tdg => GK::T,
                k => k,
            };
            h
        })
        .collect();
    Circ { n: c.n, gates }
}

/// preparation layer number `k`: a different generic single-qubit state on every qubit
fn prep_layer(n: usize, k: usize, salt: u64) -> Vec<Vec<csim::MGate>> {
    use csim::{MGate, GK};
    (0..n)
        .map(|q| {
            let x = crate::engine::mix(salt, (k * 64 + q) as u64);
            let a = 1 + (x % 7) as i64; // never 0: keeps the states generic
            let b = ((x >> 8) % 8) as i64;
            vec![
                MGate::new(GK::H, vec![q]),
                MGate::ph(GK::Rz, vec![q], crate::oracle::diag::norm_phase((a, 4))),
                MGate::new(GK::H, vec![q]),
                MGate::ph(GK::Rz, vec![q], crate::oracle::diag::norm_phase((b, 4))),
            ]
        })
        .collect()
}

fn run_state(n: usize, parts: &[&[csim::MGate]]) -> Result<Vec<Zw>, String> {
    let gates: Vec<csim::MGate> = parts.iter().flat_map(|p| p.iter().cloned()).collect();
    let t = csim::simulate_state::<Zw>(&Circ { n, gates }).map_err(|e| format!("{e:?}"))?;
    Ok(t.data)
}

fn verify_extracted_wide(orig: &Circ, ext: &Circuit, up_to_perm: bool, salt: u64, what: &str, obs: &mut Obs) -> Result<(), String> {
    let n = orig.n;
    if ext.num_qubits() != n {
        return Err(format!("{what}: extracted circuit has {} qubits, the source has {n}", ext.num_qubits()));
    }
    for g in &ext.gates {
        if !allowed_gate(g.t) {
            return Err(format!("{what}: extracted circuit contains a {:?} gate", g.t));
        }
        if g.qs.iter().any(|&q| q >= n) {
            return Err(format!("{what}: extracted gate on a qubit out of range: {g:?}"));
        }
    }
    let emodel = Circ::from_quizx(ext).ok_or("unknown gate")?;
    // the input permutation pi: U_orig = c * U_ext * P_pi
    let mut pi: Vec<usize> = (0..n).collect();
    if up_to_perm {
        let eadj = adjoint_model(&emodel);
        for j in 0..n {
            let x = [csim::MGate::new(csim::GK::X, vec![j])];
            let v = run_state(n, &[&x, &orig.gates, &eadj.gates])?;
            let nz: Vec<usize> = (0..v.len()).filter(|&i| !v[i].is_zero()).collect();
            let single = nz.len() == 1 && nz[0].count_ones() == 1;
            if !single {
                return Err(format!(
                    "{what}: up-to-permutation extraction: U_ext^dagger U_orig does not map the basis state with only qubit {j} set to another such state; extracted = {}",
                    ext.to_string().replace('\n', " ")
                ));
            }
            pi[j] = n - 1 - nz[0].trailing_zeros() as usize;
        }
        let mut seen = vec![false; n];
        for &q in &pi {
            if seen[q] {
                return Err(format!("{what}: up-to-permutation extraction: U_ext^dagger U_orig is not a qubit permutation ({pi:?})"));
            }
            seen[q] = true;
        }
        obs.class_if(pi.iter().enumerate().any(|(i, &q)| i != q), "final-permutation-nontrivial");
    }
    // product-state probes, all with one common scalar
    let mut all_o: Vec<Zw> = vec![];
    let mut all_e: Vec<Zw> = vec![];
    for k in 0..3 {
        let layers = if k == 0 { vec![vec![]; n] } else { prep_layer(n, k, salt) };
        let prep_o: Vec<csim::MGate> = layers.iter().flatten().cloned().collect();
        let prep_e: Vec<csim::MGate> = layers
            .iter()
            .enumerate()
            .flat_map(|(q, l)| {
                l.iter().cloned().map(move |mut g| {
                    g.qs = vec![q];
                    g
                })
            })
            .map(|mut g| {
                g.qs = vec![pi[g.qs[0]]];
                g
            })
            .collect();
        all_o.extend(run_state(n, &[&prep_o, &orig.gates])?);
        all_e.extend(run_state(n, &[&prep_e, &emodel.gates])?);
    }
    if !(proportional_exact(&all_e, &all_o) && all_e.iter().any(|x| !x.is_zero())) {
        return Err(format!(
            "{what}: extracted circuit{} maps |0..0> and two random product states differently from the source (not one common scalar); extracted = {}",
            if up_to_perm { format!(" (with the input permutation {pi:?} read off single-excitation probes)") } else { String::new() },
            ext.to_string().replace('\n', " ")
        ));
    }
    Ok(())
}

fn check_backend_wide<G: GraphLike + ToCircuit>(c: &Circ, backend: &str, salt: u64, obs: &mut Obs) -> Result<(), String> {
    let qc = c.to_quizx();
    for simp in [Simp::Clifford, Simp::Full, Simp::Flow] {
        let mut g: G = guarded("to_graph", || qc.to_graph())?;
        guarded(&format!("{backend}: {simp:?} simplification"), || match simp {
            Simp::Flow => {
                quizx::simplify::flow_simp(&mut g);
            }
            Simp::Clifford => {
                quizx::simplify::clifford_simp(&mut g);
            }
            Simp::Full => {
                quizx::simplify::full_simp(&mut g);
            }
        })?;
        let mut exts = vec![Ext::Gflow, Ext::SimpleGauss];
        if simp == Simp::Flow {
            exts.push(Ext::NoGauss);
        }
        for ext in exts {
            for perm in [false, true] {
                let what = format!("{backend}: {simp:?}+{ext:?}{}", if perm { "+up_to_perm" } else { "" });
                let mut h = g.clone();
                let r = guarded(&what, || {
                    let mut e = h.extractor();
                    match ext {
                        Ext::Gflow => e.gflow(),
                        Ext::SimpleGauss => e.gflow_simple_gauss(),
                        Ext::NoGauss => e.flow(),
                    };
                    if perm {
                        e.up_to_perm();
                    }
                    e.extract()
                })?;
                let circ = r.map_err(|e| format!("{what}: extraction failed: {}", e.0))?;
                verify_extracted_wide(c, &circ, perm, salt, &what, obs)?;
            }
        }
    }
    Ok(())
}

fn check_lib_wide(case: &Case, obs: &mut Obs) -> Result<(), String> {
    let c = case.circ.to_circ();
    if nontrivial(&c) && c.n >= 7 {
        obs.nontrivial();
    }
    obs.class_if(c.n >= 7, "qubits>=7");
    obs.class_if(c.n >= 8, "qubits>=8");
    let salt = {
        use std::hash::{Hash, Hasher};
        let mut h = std::collections::hash_map::DefaultHasher::new();
        c.hash(&mut h);
        h.finish()
    };
    check_backend_wide::<quizx::vec_graph::Graph>(&c, "vec", salt, obs)?;
    check_backend_wide::<quizx::hash_graph::Graph>(&c, "hash", salt, obs)?;
    obs.classes.sort();
    obs.classes.dedup();
    Ok(())
}

fn nontrivial(c: &Circ) -> bool {
    c.n >= 2
        && c.gates.iter().any(|g| g.k.is_entangling())
        && c.gates.iter().any(|g| {
            g.k == csim::GK::H
                || matches!(g.k, csim::GK::T | csim::GK::Tdg | csim::GK::Ccx | csim::GK::Ccz)
                || (g.k.has_phase() && g.phase.1 > 2)
        })
}

fn check_lib(case: &Case, obs: &mut Obs) -> Result<(), String> {
    let c = case.circ.to_circ();
    if nontrivial(&c) {
        obs.nontrivial();
    }
    obs.class_if(c.gates.iter().any(|g| g.k == csim::GK::Swap), "has-swap");
    if c.all_phases_quarter() {
        obs.class("exact");
        check_backend::<Zw, quizx::vec_graph::Graph>(&c, "vec", obs)?;
        check_backend::<Zw, quizx::hash_graph::Graph>(&c, "hash", obs)?;
    } else {
        obs.class("float");
        check_backend::<C64, quizx::vec_graph::Graph>(&c, "vec", obs)?;
        check_backend::<C64, quizx::hash_graph::Graph>(&c, "hash", obs)?;
    }
    obs.classes.sort();
    obs.classes.dedup();
    Ok(())
}

// ------------------------------------------------------------------------------------------
// CLI

static FILE_COUNTER: AtomicU64 = AtomicU64::new(0);

pub fn tmp_path(tag: &str) -> std::path::PathBuf {
    let dir = std::path::PathBuf::from(
        std::env::var("VERIF_DIR").unwrap_or_else(|_| "/verif".to_string()),
    )
    .join("target")
    .join("tmp");
    let _ = std::fs::create_dir_all(&dir);
    dir.join(format!(
        "{}-{}-{}.qasm",
        tag,
        std::process::id(),
        FILE_COUNTER.fetch_add(1, Ordering::Relaxed)
    ))
}

pub fn quizx_bin() -> String {
    std::env::var("QUIZX_BIN").unwrap_or_else(|_| "/verif/target/cli/release/quizx".to_string())
}

fn check_cli(case: &Case, obs: &mut Obs) -> Result<(), String> {
    let c = case.circ.to_circ();
    let text = c.to_quizx().to_qasm();
    // the reference is what the front end reads from the file (C14 is about printing/parsing)
    let parsed = match Circuit::from_qasm(&text) {
        Ok(p) => p,
        Err(_) => {
            obs.skip("input-does-not-parse");
            return Ok(());
        }
    };
    let Some(pm) = Circ::from_quizx(&parsed) else {
        obs.skip("input-unknown-gate");
        return Ok(());
    };
    if pm.n != c.n {
        // zero-gate circuits lose their qubit count in the parser (C14); not this property
        obs.skip("input-parse-changes-arity");
        return Ok(());
    }
    if nontrivial(&c) {
        obs.nontrivial();
    }
    let path = tmp_path("c03");
    std::fs::write(&path, &text).map_err(|e| format!("harness: cannot write {path:?}: {e}"))?;
    let mut result = Ok(());
    for method in ["--full", "--flow", "--clifford", ""] {
        let mut cmd = std::process::Command::new(quizx_bin());
        cmd.arg("opt").arg(&path);
        if !method.is_empty() {
            cmd.arg(method);
        }
        let out = match cmd.output() {
            Ok(o) => o,
            Err(e) => panic!("cannot run the quizx binary {}: {e}", quizx_bin()),
        };
        let what = format!("quizx opt {method}");
        if !out.status.success() {
            result = Err(format!(
                "{what}: exit status {:?}; stderr: {}",
                out.status.code(),
                String::from_utf8_lossy(&out.stderr).chars().take(400).collect::<String>()
            ));
            break;
        }
        let stdout = String::from_utf8_lossy(&out.stdout).to_string();
        let oc = match Circuit::from_qasm(&stdout) {
            Ok(c) => c,
            Err(e) => {
                result = Err(format!("{what}: printed QASM does not parse back: {e}; output: {}", stdout.replace('\n', " ")));
                break;
            }
        };
        if oc.num_qubits() != pm.n && oc.num_gates() == 0 {
            // printed circuit without gates: qubit count lost by the parser (C14 finding)
            obs.skip("output-parse-changes-arity");
            continue;
        }
        let r = if pm.all_phases_quarter()
            && Circ::from_quizx(&oc).map(|m| m.all_phases_quarter()).unwrap_or(false)
        {
            verify_extracted::<Zw>(&pm, &oc, false, &what, obs)
        } else {
            verify_extracted_tol(&pm, &oc, &what, obs)
        };
        if r.is_err() {
            result = r;
            break;
        }
    }
    let _ = std::fs::remove_file(&path);
    result
}

fn verify_extracted_tol(orig: &Circ, ext: &Circuit, what: &str, _obs: &mut Obs) -> Result<(), String> {
    if ext.num_qubits() != orig.n {
        return Err(format!("{what}: output has {} qubits, input {}", ext.num_qubits(), orig.n));
    }
    for g in &ext.gates {
        if !allowed_gate(g.t) {
            return Err(format!("{what}: output contains a {:?} gate", g.t));
        }
    }
    let em = Circ::from_quizx(ext).ok_or("unknown gate")?;
    let a: Vec<C64> = csim::simulate::<C64>(&em).map_err(|e| format!("{e:?}"))?.data;
    let b: Vec<C64> = csim::simulate::<C64>(orig).map_err(|e| format!("{e:?}"))?.data;
    // QASM literals pass through f32 in the front end: 1e-5
    if !proportional_close(&a, &b, 1e-5) {
        return Err(format!("{what}: printed circuit is not equivalent to the input (tolerance 1e-5)"));
    }
    Ok(())
}

pub fn def(ctx: &Ctx) -> PropertyDef {
    let t = ctx.tier;
    let mk = move |pal: Palette, maxq: usize, maxg: usize, cli: bool| {
        move || {
            circ_spec(CircParams {
                min_q: 1,
                max_q: maxq,
                max_gates: maxg,
                // pp has no QASM spelling the front end knows
                kinds: unitary_kinds()
                    .into_iter()
                    .filter(|(_, k)| !cli || *k != csim::GK::Pp)
                    .collect(),
                palette: pal,
                max_var: 0,
            })
            .prop_map(|circ| Case { circ })
        }
    };
    PropertyDef {
        id: "C03",
        rule: "random unitary circuits (Clifford+T, rational rz/rx, ccx/ccz, swap, pp, xcx; <=5 (6) qubits): to_graph, then {flow_simp, clifford_simp, full_simp} x {to_circuit() by reference, twice, leaving the diagram untouched; extractor {gflow single-solution-set, simple-Gauss; Gauss-free for flow} x {exact, up-to-permutation}, both backends: extraction must return Ok, same qubit count, gates in {H, rz, cz, cx, swap}, and the harness simulator must find U_ext proportional to U_orig (exact cross-multiplication; 1e-8 for general phases), resp. U_ext^dagger U_orig = scalar x qubit permutation. CLI: `quizx opt <file> [--full|--flow|--clifford|default]` built from the current tree: exit 0, stdout parses, parsed circuit proportional to the parsed input. Non-trivial = >=2 qubits with an entangling gate and an H or non-Clifford gate. Distinct by hash of the circuit.",
        assumptions: vec![
            "harness simulator (see selftest)",
            "for the CLI the reference is the circuit the front end parses from the file; general phases compared to 1e-5 because QASM literals pass through f32",
        ],
        sections: vec![
            Section::random("lib-exact", ctx.cases(1200, 40000), mk(Palette::ExactT, t.pick(5, 6), t.pick(24, 40), false), check_lib),
            Section::random("lib-general", ctx.cases(500, 15000), mk(Palette::General, t.pick(4, 5), t.pick(20, 30), false), check_lib),
            Section::random(
                "lib-wide",
                ctx.cases(100, 4000),
                move || {
                    circ_spec(CircParams {
                        min_q: 7,
                        max_q: t.pick(8, 9),
                        max_gates: t.pick(80, 120),
                        kinds: {
                            let mut k = unitary_kinds();
                            // dense frontiers: many two- and three-qubit gates
                            k.push((4, csim::GK::Cx));
                            k.push((3, csim::GK::Cz));
                            k.push((2, csim::GK::Ccz));
                            k.push((1, csim::GK::Ccx));
                            k
                        },
                        palette: Palette::ExactT,
                        max_var: 0,
                    })
                    .prop_map(|circ| Case { circ })
                },
                check_lib_wide,
            ),
            Section::random("cli", ctx.cases(120, 3000), mk(Palette::ExactT, 4, 20, true), check_cli),
            Section::random("cli-general", ctx.cases(40, 1000), mk(Palette::General, 3, 12, true), check_cli),
        ],
    }
}
