//! C15 — circuit adjoint inverts; basic-gate expansion and concatenation keep meaning; statistics
//! partition the gates.

use super::common::*;
use crate::engine::{Ctx, Obs, PropertyDef, Section};
use crate::gen::circ::{circ_spec, unitary_kinds, CircParams, CircSpec};
use crate::gen::diag::Palette;
use crate::oracle::csim::{self, Circ, GK};
use crate::oracle::ring::{tensors_close, tensors_equal_exact, Ring, Zw, C64};
use proptest::prelude::*;
use quizx::circuit::Circuit;
use quizx::gate::GType;
use serde::{Deserialize, Serialize};

#[derive(Clone, Debug, Serialize, Deserialize)]
pub struct Case {
    pub a: CircSpec,
    pub b: CircSpec,
    /// split point of the push_front / push_back construction of `a` (0 = push only)
    #[serde(default)]
    pub split: u16,
}

fn unitary_flat<R: Ring>(c: &Circ) -> Vec<R> {
    csim::simulate::<R>(c).expect("simulate").data
}

fn same_flat<R: Ring>(a: &[R], b: &[R]) -> Result<(), String> {
    if R::exact() {
        let a: Vec<Zw> = a.iter().map(|x| zw_of(x)).collect();
        let b: Vec<Zw> = b.iter().map(|x| zw_of(x)).collect();
        tensors_equal_exact(&a, &b)
    } else {
        let a: Vec<C64> = a.iter().map(|x| C64(x.to_c64())).collect();
        let b: Vec<C64> = b.iter().map(|x| C64(x.to_c64())).collect();
        tensors_close(&a, &b, REL_TOL, 1e-12)
    }
}

fn zw_of<R: Ring>(x: &R) -> Zw {
    let any: &dyn std::any::Any = x;
    *any.downcast_ref::<Zw>().expect("exact ring is Zw")
}

fn from_q(c: &Circuit) -> Result<Circ, String> {
    Circ::from_quizx(c).ok_or_else(|| "circuit contains an unknown gate".to_string())
}

fn is_basic(t: GType) -> bool {
    !matches!(
        t,
        GType::TOFF | GType::CCZ | GType::ParityPhase | GType::UnknownGate
    )
}

/// Semantic Clifford test for a single gate on <= 3 qubits: U P U^dagger is a Pauli (up to phase)
/// for every generator P.
fn gate_is_clifford(g: &csim::MGate) -> Option<bool> {
    let k = g.qs.len();
    if k == 0 {
        return Some(true);
    }
    if k > 3 {
        return None;
    }
    let local = Circ {
        n: k,
        gates: vec![csim::MGate {
            k: g.k,
            qs: (0..k).collect(),
            phase: g.phase,
            vars: vec![],
        }],
    };
    let u = csim::unitary::<C64>(&local).ok()?;
    let ud = csim::dagger(&u);
    let dim = 1usize << k;
    for q in 0..k {
        for pk in [GK::X, GK::Z] {
            let p = csim::unitary::<C64>(&Circ {
                n: k,
                gates: vec![csim::MGate::new(pk, vec![q])],
            })
            .ok()?;
            let m = csim::matmul(&csim::matmul(&u, &p), &ud);
            // a Pauli up to phase: exactly one entry of modulus 1 per row, all of modulus 1 with
            // phases in {1,i,-1,-i} times a common phase, and m must be a signed permutation of
            // X^a Z^b form: check every row has exactly one non-zero entry of modulus 1 and the
            // column pattern is r -> r xor mask
            let mut mask = None;
            for r in 0..dim {
                let nz: Vec<usize> = (0..dim).filter(|&c| m[r][c].0.norm() > 1e-9).collect();
                if nz.len() != 1 || (m[r][nz[0]].0.norm() - 1.0).abs() > 1e-9 {
                    return Some(false);
                }
                let mk = r ^ nz[0];
                if *mask.get_or_insert(mk) != mk {
                    return Some(false);
                }
            }
            // phases: ratio between rows must be +-1
            let base = m[0][mask.unwrap()].0;
            for r in 0..dim {
                let ratio = m[r][r ^ mask.unwrap()].0 / base;
                if (ratio.im).abs() > 1e-9 || ((ratio.re).abs() - 1.0).abs() > 1e-9 {
                    return Some(false);
                }
            }
        }
    }
    Some(true)
}

fn check_in<R: Ring>(a: &Circ, b: &Circ, split: usize, obs: &mut Obs) -> Result<(), String> {
    let qa = a.to_quizx_layout(split);
    let qb = b.to_quizx();
    if !qa.gates.iter().eq(a.to_quizx_layout(0).gates.iter()) {
        return Err(format!("push_front/push_back construction (split {split}) gives a different gate list than push"));
    }
    // the in-place forms, on freshly built objects (a clone would re-lay the gate deque out)
    {
        let mut x = a.to_quizx_layout(split);
        guarded("reverse (in place)", || x.reverse())?;
        let want: Vec<csim::MGate> = a.gates.iter().rev().cloned().collect();
        if from_q(&x)?.gates != want {
            return Err(format!("reverse() in place (circuit built with split {split}) is not the reversed gate list"));
        }
        let mut y = a.to_quizx_layout(split);
        guarded("adjoint (in place)", || y.adjoint())?;
        let by_value = guarded("to_adjoint", || qa.to_adjoint())?;
        if y != by_value {
            return Err(format!("adjoint() in place (circuit built with split {split}) differs from to_adjoint()"));
        }
        let mut z = a.to_quizx_layout(split);
        let z0 = a.to_quizx_layout(split);
        guarded("adjoint (in place)", || z.adjoint())?;
        let both = guarded("c + adjoint", || &z0 + &z)?;
        let u = unitary_flat::<R>(&from_q(&both)?);
        let dim = 1usize << a.n;
        let ident: Vec<R> = (0..dim * dim).map(|i| if i / dim == i % dim { R::one() } else { R::zero() }).collect();
        same_flat(&u, &ident).map_err(|e| format!("c followed by its in-place adjoint (built with split {split}) is not the identity: {e}"))?;
    }
    let ua = unitary_flat::<R>(a);
    let dim = 1usize << a.n;
    // adjoint
    let adj = guarded("to_adjoint", || qa.to_adjoint())?;
    let both = guarded("c + c.to_adjoint()", || &qa + &adj)?;
    let mb = from_q(&both)?;
    let u = unitary_flat::<R>(&mb);
    let ident: Vec<R> = (0..dim * dim)
        .map(|i| if i / dim == i % dim { R::one() } else { R::zero() })
        .collect();
    same_flat(&u, &ident).map_err(|e| format!("c followed by its adjoint is not the identity: {e}"))?;
    let adjadj = adj.to_adjoint();
    if adjadj != qa {
        return Err("adjoint(adjoint(c)) != c".into());
    }
    let mut rr = qa.clone();
    rr.reverse();
    if !rr.gates.iter().eq(qa.gates.iter().rev()) {
        return Err("reverse() is not the reversed gate list".into());
    }
    rr.reverse();
    if rr != qa {
        return Err("reverse(reverse(c)) != c".into());
    }
    // basic gates
    let basic = guarded("to_basic_gates", || qa.to_basic_gates())?;
    // basic gates expand to themselves
    if guarded("to_basic_gates of a basic circuit", || basic.to_basic_gates())? != basic {
        return Err("to_basic_gates is not idempotent".into());
    }
    let expect_len: usize = qa.gates.iter().map(|g| g.num_basic_gates()).sum();
    if basic.num_gates() != expect_len {
        return Err(format!(
            "to_basic_gates produced {} gates, num_basic_gates advertises {expect_len}",
            basic.num_gates()
        ));
    }
    if basic.num_qubits() != qa.num_qubits() {
        return Err("to_basic_gates changed the qubit count".into());
    }
    for g in &basic.gates {
        if !is_basic(g.t) || g.qs.is_empty() || g.qs.len() > 2 {
            return Err(format!("to_basic_gates left a non-basic gate {:?} on {:?}", g.t, g.qs));
        }
    }
    let ub = unitary_flat::<R>(&from_q(&basic)?);
    same_flat(&ua, &ub).map_err(|e| format!("to_basic_gates changed the unitary: {e}"))?;
    // concatenation (b is forced onto the same qubit count)
    let ub2 = csim::unitary::<R>(b).map_err(|e| format!("{e:?}"))?;
    let ua2 = csim::unitary::<R>(a).map_err(|e| format!("{e:?}"))?;
    let want = csim::flatten(&transpose_flat(&csim::matmul(&ub2, &ua2)));
    let sums: Vec<(&str, Circuit)> = vec![
        ("a + b", guarded("Add<Circuit> for Circuit", || qa.clone() + qb.clone())?),
        ("a + &b", guarded("Add<&Circuit> for Circuit", || qa.clone() + &qb)?),
        ("&a + b", guarded("Add<Circuit> for &Circuit", || &qa + qb.clone())?),
        ("&a + &b", guarded("Add<&Circuit> for &Circuit", || &qa + &qb)?),
        ("a += &b", {
            let mut x = qa.clone();
            guarded("AddAssign", || x += &qb)?;
            x
        }),
    ];
    for (name, s) in &sums {
        if s.num_qubits() != a.n {
            return Err(format!("{name}: qubit count {}", s.num_qubits()));
        }
        let gates: Vec<_> = qa.gates.iter().chain(qb.gates.iter()).cloned().collect();
        if !s.gates.iter().eq(gates.iter()) {
            return Err(format!("{name}: gate list is not the concatenation"));
        }
        let us = unitary_flat::<R>(&from_q(s)?);
        same_flat(&us, &want).map_err(|e| format!("{name}: not the composition: {e}"))?;
    }
    // statistics
    let st = qa.stats();
    let n1 = qa.gates.iter().filter(|g| g.qs.len() == 1).count();
    let n2 = qa.gates.iter().filter(|g| g.qs.len() == 2).count();
    if st.qubits != a.n || st.total != qa.num_gates() {
        return Err(format!("stats: qubits/total wrong: {st:?}"));
    }
    if st.oneq + st.twoq + st.moreq != st.total || st.cliff + st.non_cliff != st.total {
        return Err(format!("stats do not partition the gates: {st:?}"));
    }
    if st.oneq != n1 || st.twoq != n2 {
        return Err(format!("stats: one/two-qubit counts wrong: {st:?} vs {n1},{n2}"));
    }
    // every gate the statistics call Clifford must be Clifford: recompute the count over single
    // gates through a one-gate circuit
    for g in &a.gates {
        let one = Circ {
            n: a.n,
            gates: vec![g.clone()],
        };
        let s1 = one.to_quizx().stats();
        if let Some(sem) = gate_is_clifford(g) {
            if s1.cliff == 1 && !sem {
                return Err(format!("stats count the non-Clifford gate {g:?} as Clifford"));
            }
            if s1.non_cliff == 1 && sem {
                obs.class("clifford-gate-counted-non-clifford");
            }
        }
    }
    Ok(())
}

/// csim::flatten gives row-major U[r][c]; tensors are indexed (input, output) = (c, r)
fn transpose_flat<R: Ring>(m: &[Vec<R>]) -> Vec<Vec<R>> {
    let n = m.len();
    let mut t = vec![vec![R::zero(); n]; n];
    for r in 0..n {
        for c in 0..n {
            t[c][r] = m[r][c].clone();
        }
    }
    t
}

fn check(case: &Case, obs: &mut Obs) -> Result<(), String> {
    let a = case.a.to_circ();
    let mut bs = case.b.clone();
    bs.n = a.n;
    let b = bs.to_circ();
    let unordered = a.gates.iter().any(|g| {
        matches!(g.k, GK::Ccx | GK::Ccz | GK::Pp)
            && g.qs.len() >= 2
            && g.qs.windows(2).any(|w| w[0] > w[1])
    });
    if unordered {
        obs.nontrivial();
    }
    let split = if a.gates.is_empty() { 0 } else { crate::gen::idx(case.split, a.gates.len() + 1) };
    obs.class_if(split > 0 && split < a.gates.len(), "built-from-the-middle");
    for g in &a.gates {
        match g.k {
            GK::Ccx => obs.class("ccx"),
            GK::Ccz => obs.class("ccz"),
            GK::Pp if g.qs.is_empty() => obs.class("pp-empty"),
            GK::Pp if g.qs.len() >= 3 => obs.class("pp>=3"),
            _ => {}
        }
    }
    obs.classes.sort();
    obs.classes.dedup();
    if a.all_phases_quarter() && b.all_phases_quarter() {
        obs.class("exact");
        check_in::<Zw>(&a, &b, split, obs)
    } else {
        obs.class("float");
        check_in::<C64>(&a, &b, split, obs)
    }
}

pub fn spec_with_empty_pp(p: CircParams) -> BoxedStrategy<CircSpec> {
    circ_spec(p)
        .prop_map(|mut c| {
            for g in c.gates.iter_mut() {
                if g.k == GK::Pp && g.qs.first().map(|&q| q < 2500).unwrap_or(false) {
                    g.qs.clear();
                }
            }
            c
        })
        .boxed()
}

pub fn def(ctx: &Ctx) -> PropertyDef {
    let t = ctx.tier;
    let mk = move |pal: Palette| {
        move || {
            let p = CircParams {
                min_q: 1,
                max_q: t.pick(5, 6),
                max_gates: t.pick(14, 24),
                kinds: {
                    let mut k = unitary_kinds();
                    k.push((3, GK::Pp));
                    k.push((1, GK::Ccx));
                    k.push((1, GK::Ccz));
                    k
                },
                palette: pal,
                max_var: 0,
            };
            let mut pb = p.clone();
            pb.max_gates = 6;
            (spec_with_empty_pp(p), spec_with_empty_pp(pb), prop_oneof![1 => Just(0u16), 3 => any::<u16>()]).prop_map(|(a, b, split)| Case { a, b, split })
        }
    };
    PropertyDef {
        id: "C15",
        rule: "random unitary circuits (<=6 qubits) incl. ccx, ccz and pp of arity 0-5 with arbitrary qubit order and rational phases: c followed by c.to_adjoint() simulates to the identity; to_basic_gates keeps the unitary exactly, has exactly sum(num_basic_gates) gates, all basic and on <=2 qubits; all four Add impls and += give the concatenated gate list and the composed unitary; reverse/adjoint are involutions; the circuit under test is built from a generated split point outwards with push_front/push_back (a wrapped gate deque) and the in-place reverse()/adjoint() must equal the reversed model gate list / to_adjoint() and invert the circuit; stats partition the gates and never call a semantically non-Clifford gate Clifford. Non-trivial = contains ccx/ccz/pp(arity>=2) with qubit arguments not in ascending order. Distinct by hash of the case.",
        assumptions: vec![
            "harness gate-matrix simulator (see selftest)",
            "semantically Clifford gates that the statistics count as non-Clifford (xcx, pp with Clifford phase) are only reported as a class: the statement asks for a consistent partition",
        ],
        sections: vec![
            Section::random("exact", ctx.cases(3000, 80000), mk(Palette::ExactT), check),
            Section::random("general", ctx.cases(1500, 40000), mk(Palette::General), check),
        ],
    }
}
