//! C06 — the simulator CLI reports true Born-rule probabilities, expectations and samples.

use super::c03::{quizx_bin, tmp_path};
use super::common::*;
use crate::engine::{Ctx, Obs, PropertyDef, Section};
use crate::gen::circ::{circ_spec, CircParams, CircSpec};
use crate::gen::diag::Palette;
use crate::oracle::csim::{self, Circ, GK};
use crate::oracle::ring::C64;
use num::complex::Complex64;
use proptest::prelude::*;
use quizx::circuit::Circuit;
use serde::{Deserialize, Serialize};
use std::process::Command;

#[derive(Clone, Debug, Serialize, Deserialize)]
pub struct Case {
    pub circ: CircSpec,
    pub bits: Vec<bool>,
    pub paulis: Vec<u8>,
    pub shots: u8,
    pub sample_seed: u64,
    pub method2: bool,
}

struct Run {
    code: Option<i32>,
    stdout: String,
    stderr: String,
}

fn run_cli(args: &[String], envs: &[(&str, String)]) -> Run {
    let mut cmd = Command::new(quizx_bin());
    cmd.args(args);
    for (k, v) in envs {
        cmd.env(k, v);
    }
    match cmd.output() {
        Ok(o) => Run {
            code: o.status.code(),
            stdout: String::from_utf8_lossy(&o.stdout).to_string(),
            stderr: String::from_utf8_lossy(&o.stderr).to_string(),
        },
        Err(e) => panic!("cannot run the quizx binary {}: {e}", quizx_bin()),
    }
}

fn is_panic(r: &Run) -> bool {
    r.code == Some(101) || r.stderr.contains("panicked at") || r.code.is_none()
}

fn state_of(c: &Circ) -> Vec<Complex64> {
    csim::simulate_state::<C64>(c)
        .expect("simulate")
        .data
        .iter()
        .map(|x| x.0)
        .collect()
}

fn index_of(bits: &[bool]) -> usize {
    bits.iter().fold(0usize, |a, &b| (a << 1) | b as usize)
}

fn expectation(psi: &[Complex64], n: usize, paulis: &[u8]) -> f64 {
    // <psi| P |psi>, P = tensor of paulis (0 I, 1 X, 2 Y, 3 Z), qubit 0 most significant
    let mut acc = Complex64::new(0.0, 0.0);
    for r in 0..psi.len() {
        // P|r> = phase |r'>
        let mut r2 = r;
        let mut ph = Complex64::new(1.0, 0.0);
        for q in 0..n {
            let m = 1usize << (n - 1 - q);
            let b = r & m != 0;
            match paulis[q] % 4 {
                1 => r2 ^= m,
                2 => {
                    r2 ^= m;
                    ph *= if b { Complex64::new(0.0, -1.0) } else { Complex64::new(0.0, 1.0) };
                }
                3 => {
                    if b {
                        ph = -ph;
                    }
                }
                _ => {}
            }
        }
        acc += psi[r2].conj() * ph * psi[r];
    }
    acc.re
}

fn pauli_char(p: u8) -> char {
    match p % 4 {
        0 => 'I',
        1 => 'X',
        2 => 'Y',
        _ => 'Z',
    }
}

fn close(a: f64, b: f64, tol: f64) -> bool {
    (a - b).abs() <= tol
}

fn check(c: &Case, obs: &mut Obs) -> Result<(), String> {
    let m0 = c.circ.to_circ();
    let text = m0.to_quizx().to_qasm();
    let Ok(parsed) = Circuit::from_qasm(&text) else {
        obs.skip("input-does-not-parse");
        return Ok(());
    };
    let Some(m) = Circ::from_quizx(&parsed) else {
        obs.skip("unknown-gate");
        return Ok(());
    };
    if m.n != m0.n || m.n == 0 {
        obs.skip("arity");
        return Ok(());
    }
    let n = m.n;
    let exact = m.all_phases_quarter();
    let tol = if exact { 1e-9 } else { 1e-6 };
    let psi = state_of(&m);
    let probs: Vec<f64> = psi.iter().map(|a| a.norm_sqr()).collect();
    let path = tmp_path("c06");
    std::fs::write(&path, &text).map_err(|e| format!("harness: cannot write {path:?}: {e}"))?;
    let file = path.to_string_lossy().to_string();
    let result = (|| -> Result<(), String> {
        let support = probs.iter().filter(|&&p| p > 1e-12).count();
        obs.class_if(m.gates.iter().any(|g| g.k == GK::Swap), "has-swap");
        obs.class_if(!exact, "non-clifford+t-phase");
        let methods: Vec<Vec<String>> = vec![
            vec![],
            vec!["--cats".into()],
            vec!["--bss".into()],
            vec!["--parallel".into(), "2".into()],
            vec!["--bss".into(), "--parallel".into(), "3".into()],
        ];
        let methods: Vec<Vec<String>> = if c.method2 {
            methods
        } else {
            vec![methods[0].clone(), methods[2].clone(), methods[3].clone()]
        };
        let no_ts = |r: &Run| !exact && r.stderr.contains("No ts!");
        // amplitude queries
        let mut bits: Vec<bool> = (0..n).map(|i| c.bits.get(i).copied().unwrap_or(false)).collect();
        // prefer an outcome with non-zero probability half of the time
        if c.sample_seed % 2 == 0 {
            if let Some(r) = (0..probs.len()).filter(|&r| probs[r] > 1e-12).nth((c.sample_seed as usize / 2) % support.max(1)) {
                bits = (0..n).map(|q| (r >> (n - 1 - q)) & 1 == 1).collect();
            }
        }
        let queries: Vec<(String, f64, &str)> = vec![
            (
                bits.iter().map(|&b| if b { '1' } else { '0' }).collect(),
                probs[index_of(&bits)],
                "full",
            ),
            ("0".into(), probs[0], "broadcast"),
            ("1".into(), probs[probs.len() - 1], "broadcast"),
        ];
        for (q, want, kind) in &queries {
            let mut answers = vec![];
            for mth in &methods {
                let mut args: Vec<String> = vec!["sim".into(), file.clone(), "-a".into(), q.clone()];
                args.extend(mth.iter().cloned());
                let r = run_cli(&args, &[]);
                let what = format!("quizx sim -a {q} {}", mth.join(" "));
                if r.code != Some(0) {
                    if no_ts(&r) {
                        return obs.known(
                            "sim-non-clifford-t-phase-panics",
                            format!("{what}: panics with 'No ts!' on a circuit with a phase that is not a multiple of pi/4"),
                        );
                    }
                    return Err(format!("{what}: exit {:?}, stderr: {}", r.code, r.stderr.chars().take(300).collect::<String>()));
                }
                let v: f64 = r
                    .stdout
                    .trim()
                    .parse()
                    .map_err(|_| format!("{what}: output {:?} is not a number", r.stdout))?;
                if !close(v, *want, tol) {
                    return Err(format!("{what}: printed {v}, |<b|C|0>|^2 = {want}"));
                }
                answers.push(v);
            }
            if answers.iter().any(|&a| !close(a, answers[0], tol)) {
                return Err(format!("amplitude answers differ across methods: {answers:?}"));
            }
            obs.class_if(*kind == "broadcast" && n > 1, "broadcast-form");
        }
        // expectation queries
        let paulis: Vec<u8> = (0..n).map(|i| c.paulis.get(i).copied().unwrap_or(0) % 4).collect();
        let mut equeries: Vec<(String, f64)> = vec![(
            paulis.iter().map(|&p| pauli_char(p)).collect(),
            expectation(&psi, n, &paulis),
        )];
        let bp = c.paulis.first().copied().unwrap_or(3) % 4;
        equeries.push((pauli_char(bp).to_string(), expectation(&psi, n, &vec![bp; n])));
        // lower-case spelling
        equeries.push((
            paulis.iter().map(|&p| pauli_char(p).to_ascii_lowercase()).collect(),
            expectation(&psi, n, &paulis),
        ));
        for (q, want) in &equeries {
            let mut answers = vec![];
            for mth in &methods {
                let mut args: Vec<String> = vec!["sim".into(), file.clone(), "-e".into(), q.clone()];
                args.extend(mth.iter().cloned());
                let r = run_cli(&args, &[]);
                let what = format!("quizx sim -e {q} {}", mth.join(" "));
                if r.code != Some(0) {
                    if no_ts(&r) {
                        return obs.known(
                            "sim-non-clifford-t-phase-panics",
                            format!("{what}: panics with 'No ts!' on a circuit with a phase that is not a multiple of pi/4"),
                        );
                    }
                    return Err(format!("{what}: exit {:?}, stderr: {}", r.code, r.stderr.chars().take(300).collect::<String>()));
                }
                let v: f64 = r
                    .stdout
                    .trim()
                    .parse()
                    .map_err(|_| format!("{what}: output {:?} is not a number", r.stdout))?;
                if !close(v, *want, tol) {
                    return Err(format!("{what}: printed {v}, <psi|P|psi> = {want}"));
                }
                answers.push(v);
            }
            if answers.iter().any(|&a| !close(a, answers[0], tol)) {
                return Err(format!("expectation answers differ across methods: {answers:?}"));
            }
        }
        // sampling with the trace hook
        let shots = 1 + c.shots as usize % 4;
        let mut joint_differs = false;
        for (mi, mth) in methods.iter().enumerate().take(2) {
            let trace = tmp_path("c06-trace");
            let _ = std::fs::remove_file(&trace);
            let mut args: Vec<String> = vec!["sim".into(), file.clone(), "-s".into(), shots.to_string()];
            args.extend(mth.iter().cloned());
            let r = run_cli(
                &args,
                &[
                    ("QUIZX_VERIF_SAMPLE_TRACE", trace.to_string_lossy().to_string()),
                    ("QUIZX_VERIF_SAMPLE_SEED", (c.sample_seed.wrapping_add(mi as u64)).to_string()),
                ],
            );
            let what = format!("quizx sim -s {shots} {}", mth.join(" "));
            let tr = std::fs::read_to_string(&trace).unwrap_or_default();
            let _ = std::fs::remove_file(&trace);
            if r.code != Some(0) {
                if no_ts(&r) {
                    return obs.known(
                        "sim-non-clifford-t-phase-panics",
                        format!("{what}: panics with 'No ts!' on a circuit with a phase that is not a multiple of pi/4"),
                    );
                }
                return Err(format!("{what}: exit {:?}, stderr: {}", r.code, r.stderr.chars().take(300).collect::<String>()));
            }
            let lines: Vec<&str> = r.stdout.lines().collect();
            if lines.len() != shots {
                return Err(format!("{what}: printed {} lines", lines.len()));
            }
            // trace: shots * n draws
            let draws: Vec<(Vec<bool>, f64)> = tr
                .lines()
                .filter_map(|l| {
                    let (a, b) = l.split_once(' ')?;
                    let bits = a.trim_matches(|c| c == '[' || c == ']').chars().map(|c| c == '1').collect();
                    Some((bits, b.trim().parse::<f64>().ok()?))
                })
                .collect();
            if draws.len() != shots * n {
                return Err(format!("{what}: harness: trace has {} draws, expected {}", draws.len(), shots * n));
            }
            for (s, line) in lines.iter().enumerate() {
                if line.len() != n || line.chars().any(|c| c != '0' && c != '1') {
                    return Err(format!("{what}: sample {line:?} is not a bit string of length {n}"));
                }
                let sample: Vec<bool> = line.chars().map(|c| c == '1').collect();
                let pr = probs[index_of(&sample)];
                if pr <= 1e-12 {
                    return Err(format!("{what}: printed the sample {line}, which has probability {pr}"));
                }
                for k in 0..n {
                    let (prefix, p_used) = &draws[s * n + k];
                    if prefix[..] != sample[..k] {
                        return Err(format!(
                            "{what}: draw {k} of shot {s} was conditioned on the prefix {prefix:?}, the printed sample is {line}"
                        ));
                    }
                    // P(prefix), P(prefix,1)
                    let mut pp = 0.0;
                    let mut p1 = 0.0;
                    for r in 0..probs.len() {
                        let matches = (0..k).all(|q| ((r >> (n - 1 - q)) & 1 == 1) == prefix[q]);
                        if matches {
                            pp += probs[r];
                            if (r >> (n - 1 - k)) & 1 == 1 {
                                p1 += probs[r];
                            }
                        }
                    }
                    if pp > 1e-9 {
                        let cond = p1 / pp;
                        if (cond - p1).abs() > 1e-6 {
                            joint_differs = true;
                        }
                        if !close(*p_used, cond, tol.max(1e-9)) {
                            let msg = format!(
                                "{what}: bit {k} after prefix {prefix:?} was drawn with probability {p_used}, the conditional probability is {cond} (joint {p1})"
                            );
                            if close(*p_used, p1, tol.max(1e-9)) {
                                return obs.known("sim-sampler-joint-probability", msg);
                            }
                            return Err(msg);
                        }
                    }
                }
            }
        }
        if support >= 2 && joint_differs {
            obs.nontrivial();
        }
        obs.class_if(support >= 2, "non-deterministic-output");
        Ok(())
    })();
    let _ = std::fs::remove_file(&path);
    result
}

// ------------------------------------------------------------------------------------------
// malformed queries

#[derive(Clone, Debug, Serialize, Deserialize)]
pub struct BadCase {
    pub n: usize,
    pub kind: u8,
    pub len: usize,
    pub junk: u8,
}

fn check_bad(c: &BadCase, obs: &mut Obs) -> Result<(), String> {
    let n = 1 + c.n % 4;
    let mut text = format!("OPENQASM 2.0;\ninclude \"qelib1.inc\";\nqreg q[{n}];\n");
    for q in 0..n {
        text += &format!("h q[{q}];\n");
    }
    let path = tmp_path("c06-bad");
    std::fs::write(&path, &text).map_err(|e| format!("harness: {e}"))?;
    let file = path.to_string_lossy().to_string();
    let wrong_len = {
        let mut l = c.len % 7;
        if l == n || l == 1 {
            l = n + 1;
        }
        l
    };
    let junk_chars = ['2', 'a', 'Q', '-', ' ', 'é'];
    let j = junk_chars[c.junk as usize % junk_chars.len()];
    let args: Vec<String> = match c.kind % 9 {
        0 => vec!["sim".into(), file.clone(), "-a".into(), "0".repeat(wrong_len)],
        1 => vec!["sim".into(), file.clone(), "-e".into(), "Z".repeat(wrong_len)],
        2 => vec!["sim".into(), file.clone(), "-a".into(), format!("{}{j}", "0".repeat(n.saturating_sub(1)))],
        3 => vec!["sim".into(), file.clone(), "-e".into(), format!("{}{j}", "X".repeat(n.saturating_sub(1)))],
        4 => vec!["sim".into(), file.clone(), "-a".into(), String::new()],
        5 => vec!["sim".into(), file.clone(), "-e".into(), String::new()],
        6 => vec!["sim".into(), file.clone(), "-a".into(), "0".repeat(n), "-s".into(), "2".into()],
        7 => vec!["sim".into(), file.clone(), "--cats".into(), "--bss".into(), "-s".into(), "1".into()],
        _ => vec!["sim".into(), format!("{file}.does-not-exist"), "-s".into(), "1".into()],
    };
    obs.class(match c.kind % 9 {
        0 | 1 => "wrong-length",
        2 | 3 => "foreign-character",
        4 | 5 => "empty-string",
        6 => "two-tasks",
        7 => "two-methods",
        _ => "missing-file",
    });
    obs.nontrivial();
    let r = run_cli(&args, &[]);
    let _ = std::fs::remove_file(&path);
    let what = format!("quizx {}", args[0..].join(" ").replace(&file, "<file>"));
    if is_panic(&r) {
        return Err(format!(
            "{what}: a malformed query made the CLI panic (exit {:?}): {}",
            r.code,
            r.stderr.chars().take(300).collect::<String>()
        ));
    }
    if r.code == Some(0) {
        return Err(format!("{what}: a malformed query was accepted (exit 0, output {:?})", r.stdout));
    }
    Ok(())
}

// ------------------------------------------------------------------------------------------
// input files written by the harness's QASM grammar (several registers, broadcasts, user gates,
// every angle spelling) instead of quizx's own printer: here the reference is the gate list the
// generator intended, not what the front end parsed

#[derive(Clone, Debug, Serialize, Deserialize)]
pub struct SpelledCase {
    pub text: super::c14::TextCase,
    pub bits: Vec<bool>,
    pub pick: u64,
}

fn check_spelled(c: &SpelledCase, obs: &mut Obs) -> Result<(), String> {
    let b = super::c14::build(&c.text);
    let Some(m) = b.expected else {
        obs.skip("text-must-be-rejected");
        return Ok(());
    };
    if m.n == 0 || m.n > 9 || m.gates.iter().any(|g| !g.k.is_unitary()) {
        obs.skip("measurement-or-size");
        return Ok(());
    }
    let n = m.n;
    let psi = state_of(&m);
    let probs: Vec<f64> = psi.iter().map(|a| a.norm_sqr()).collect();
    let support: Vec<usize> = (0..probs.len()).filter(|&r| probs[r] > 1e-9).collect();
    let r = support[(c.pick as usize) % support.len()];
    let mut bits: Vec<bool> = (0..n).map(|q| (r >> (n - 1 - q)) & 1 == 1).collect();
    if c.pick % 3 == 0 {
        bits = (0..n).map(|i| c.bits.get(i).copied().unwrap_or(false)).collect();
    }
    let want = probs[index_of(&bits)];
    obs.class_if(m.gates.iter().any(|g| g.k.has_phase()), "has-spelled-angle");
    if m.gates.iter().any(|g| g.k.has_phase()) && support.len() >= 2 {
        obs.nontrivial();
    }
    let path = tmp_path("c06-spelled");
    std::fs::write(&path, &b.text).map_err(|e| format!("harness: {e}"))?;
    let q: String = bits.iter().map(|&b| if b { '1' } else { '0' }).collect();
    let args: Vec<String> = vec!["sim".into(), path.to_string_lossy().to_string(), "-a".into(), q.clone()];
    let r = run_cli(&args, &[]);
    let _ = std::fs::remove_file(&path);
    if r.code != Some(0) {
        if r.stderr.contains("No ts!") {
            return obs.known("sim-non-clifford-t-phase-panics", "quizx sim panics with 'No ts!'");
        }
        return Err(format!(
            "quizx sim -a {q}: exit {:?} on a supported text: {}; text: {}",
            r.code,
            r.stderr.chars().take(200).collect::<String>(),
            b.text.replace('\n', " ")
        ));
    }
    let v: f64 = r.stdout.trim().parse().map_err(|_| format!("quizx sim -a {q}: output {:?} is not a number", r.stdout))?;
    // decimal radians pass through f32 in the front end
    if !close(v, want, 1e-4) {
        return Err(format!("quizx sim -a {q}: printed {v}, |<b|C|0>|^2 = {want} for the circuit the text denotes; text: {}", b.text.replace('\n', " ")));
    }
    Ok(())
}

// ------------------------------------------------------------------------------------------
// wide structured circuits (53-64 qubits): the output distribution is uniform over an affine
// subspace, so every probability is known in closed form although no state vector fits

#[derive(Clone, Debug, Serialize, Deserialize)]
pub struct WideCase {
    pub n: usize,
    /// per qubit: 0 = |0>, 1 = x (|1>), 2 = h (free bit), 3 = copy of a free qubit (cx), 4 = negated copy
    pub kinds: Vec<u8>,
    pub src: Vec<u16>,
    pub shots: u8,
    pub sample_seed: u64,
    pub bss: bool,
    pub parallel: bool,
}

fn check_wide(c: &WideCase, obs: &mut Obs) -> Result<(), String> {
    let n = c.n.clamp(53, 64);
    // resolve: expr[q] = (constant bit, Some(free qubit index) or None)
    let mut kind: Vec<u8> = (0..n).map(|q| c.kinds.get(q).copied().unwrap_or(2) % 5).collect();
    let free: Vec<usize> = (0..n).filter(|&q| kind[q] == 2).collect();
    if free.is_empty() {
        kind[0] = 2;
    }
    let free: Vec<usize> = (0..n).filter(|&q| kind[q] == 2).collect();
    let mut expr: Vec<(bool, Option<usize>)> = vec![(false, None); n];
    let mut text = format!("OPENQASM 2.0;\ninclude \"qelib1.inc\";\nqreg q[{n}];\n");
    for &q in &free {
        text += &format!("h q[{q}];\n");
        expr[q] = (false, Some(q));
    }
    for q in 0..n {
        match kind[q] {
            1 => {
                text += &format!("x q[{q}];\n");
                expr[q] = (true, None);
            }
            3 | 4 => {
                let s = free[crate::gen::idx(c.src.get(q).copied().unwrap_or(0), free.len())];
                text += &format!("cx q[{s}], q[{q}];\n");
                if kind[q] == 4 {
                    text += &format!("x q[{q}];\n");
                }
                expr[q] = (kind[q] == 4, Some(s));
            }
            _ => {}
        }
    }
    let nfree = free.len();
    obs.class_if(nfree >= 53, "free-bits>=53");
    obs.nontrivial();
    let path = tmp_path("c06-wide");
    std::fs::write(&path, &text).map_err(|e| format!("harness: {e}"))?;
    let file = path.to_string_lossy().to_string();
    let mut mth: Vec<String> = vec![];
    if c.bss {
        mth.push("--bss".into());
    }
    if c.parallel {
        mth.push("--parallel".into());
        mth.push("2".into());
    }
    let result = (|| -> Result<(), String> {
        // sampling with the trace
        let shots = 1 + c.shots as usize % 2;
        let trace = tmp_path("c06-wide-trace");
        let _ = std::fs::remove_file(&trace);
        let mut args: Vec<String> = vec!["sim".into(), file.clone(), "-s".into(), shots.to_string()];
        args.extend(mth.iter().cloned());
        let r = run_cli(
            &args,
            &[
                ("QUIZX_VERIF_SAMPLE_TRACE", trace.to_string_lossy().to_string()),
                ("QUIZX_VERIF_SAMPLE_SEED", c.sample_seed.to_string()),
            ],
        );
        let tr = std::fs::read_to_string(&trace).unwrap_or_default();
        let _ = std::fs::remove_file(&trace);
        let what = format!("quizx sim -s {shots} {} on {n} qubits ({nfree} free bits)", mth.join(" "));
        if r.code != Some(0) {
            return Err(format!("{what}: exit {:?}, stderr: {}", r.code, r.stderr.chars().take(300).collect::<String>()));
        }
        let lines: Vec<&str> = r.stdout.lines().collect();
        if lines.len() != shots {
            return Err(format!("{what}: printed {} lines", lines.len()));
        }
        let draws: Vec<(Vec<bool>, f64)> = tr
            .lines()
            .filter_map(|l| {
                let (a, b) = l.split_once(' ')?;
                let bits = a.trim_matches(|c| c == '[' || c == ']').chars().map(|c| c == '1').collect();
                Some((bits, b.trim().parse::<f64>().ok()?))
            })
            .collect();
        if draws.len() != shots * n {
            return Err(format!("{what}: harness: trace has {} draws, expected {}", draws.len(), shots * n));
        }
        let mut a_sample: Vec<bool> = vec![];
        for (s, line) in lines.iter().enumerate() {
            if line.len() != n {
                return Err(format!("{what}: sample has length {}", line.len()));
            }
            let sample: Vec<bool> = line.chars().map(|c| c == '1').collect();
            // consistency = non-zero probability
            let mut val: Vec<Option<bool>> = vec![None; n];
            for q in 0..n {
                let (k, v) = expr[q];
                match v {
                    None => {
                        if sample[q] != k {
                            return Err(format!("{what}: printed sample {line} has probability 0 (bit {q} is the constant {})", k as u8));
                        }
                    }
                    Some(f) => {
                        let fv = sample[q] ^ k;
                        match val[f] {
                            None => val[f] = Some(fv),
                            Some(x) if x != fv => {
                                return Err(format!("{what}: printed sample {line} has probability 0 (bit {q} must be tied to bit {f})"));
                            }
                            _ => {}
                        }
                    }
                }
            }
            for k in 0..n {
                let (prefix, p_used) = &draws[s * n + k];
                if prefix[..] != sample[..k] {
                    return Err(format!("{what}: draw {k} of shot {s} was conditioned on a prefix that is not the printed sample's"));
                }
                // conditional probability of bit k = 1 given the prefix
                let (kc, v) = expr[k];
                let cond = match v {
                    None => kc as u8 as f64,
                    Some(f) => {
                        // is the free variable already determined by an earlier bit?
                        match (0..k).find(|&j| expr[j].1 == Some(f)) {
                            Some(j) => ((sample[j] ^ expr[j].0) ^ kc) as u8 as f64,
                            None => 0.5,
                        }
                    }
                };
                if (p_used - cond).abs() > 1e-6 {
                    return Err(format!(
                        "{what}: bit {k} (after a prefix of probability 2^-{}) was drawn with probability {p_used}, the conditional probability is {cond}",
                        (0..k).filter_map(|j| expr[j].1).collect::<std::collections::BTreeSet<_>>().len()
                    ));
                }
            }
            a_sample = sample;
        }
        // amplitude of the sampled (consistent) string and of an inconsistent one
        let bits: String = a_sample.iter().map(|&b| if b { '1' } else { '0' }).collect();
        let mut args: Vec<String> = vec!["sim".into(), file.clone(), "-a".into(), bits.clone()];
        args.extend(mth.iter().cloned());
        let r = run_cli(&args, &[]);
        if r.code != Some(0) {
            return Err(format!("quizx sim -a on {n} qubits: exit {:?}: {}", r.code, r.stderr.chars().take(200).collect::<String>()));
        }
        let v: f64 = r.stdout.trim().parse().map_err(|_| format!("amplitude output {:?}", r.stdout))?;
        let want = 2f64.powi(-(nfree as i32));
        if (v - want).abs() > 1e-9 * want {
            return Err(format!("quizx sim -a <consistent string> on {n} qubits printed {v}, expected 2^-{nfree} = {want}"));
        }
        // flip a constant or tied bit -> probability 0
        if let Some(q) = (0..n).find(|&q| kind[q] != 2) {
            let mut b2 = a_sample.clone();
            b2[q] = !b2[q];
            let bits2: String = b2.iter().map(|&b| if b { '1' } else { '0' }).collect();
            let mut args: Vec<String> = vec!["sim".into(), file.clone(), "-a".into(), bits2];
            args.extend(mth.iter().cloned());
            let r = run_cli(&args, &[]);
            let v: f64 = r.stdout.trim().parse().map_err(|_| format!("amplitude output {:?}", r.stdout))?;
            if v.abs() > 1e-30 {
                return Err(format!("quizx sim -a <inconsistent string> on {n} qubits printed {v}, expected 0"));
            }
        }
        // expectation of a Z string: product over its support
        let zs: Vec<bool> = (0..n).map(|q| (c.sample_seed >> (q % 60)) & 1 == 1 && q % 3 != 1).collect();
        let mut konst = false;
        let mut vars: std::collections::BTreeSet<usize> = Default::default();
        for q in 0..n {
            if zs[q] {
                konst ^= expr[q].0;
                if let Some(f) = expr[q].1 {
                    if !vars.insert(f) {
                        vars.remove(&f);
                    }
                }
            }
        }
        let want = if vars.is_empty() { if konst { -1.0 } else { 1.0 } } else { 0.0 };
        let ps: String = zs.iter().map(|&z| if z { 'Z' } else { 'I' }).collect();
        let mut args: Vec<String> = vec!["sim".into(), file.clone(), "-e".into(), ps];
        args.extend(mth.iter().cloned());
        let r = run_cli(&args, &[]);
        if r.code != Some(0) {
            return Err(format!("quizx sim -e on {n} qubits: exit {:?}: {}", r.code, r.stderr.chars().take(200).collect::<String>()));
        }
        let v: f64 = r.stdout.trim().parse().map_err(|_| format!("expectation output {:?}", r.stdout))?;
        if (v - want).abs() > 1e-9 {
            return Err(format!("quizx sim -e <Z string> on {n} qubits printed {v}, expected {want}"));
        }
        Ok(())
    })();
    let _ = std::fs::remove_file(&path);
    result
}

pub fn def(ctx: &Ctx) -> PropertyDef {
    let t = ctx.tier;
    let kinds = |general: bool| {
        let mut k = vec![
            (4, GK::H),
            (3, GK::Cx),
            (2, GK::Cz),
            (3, GK::T),
            (1, GK::Tdg),
            (2, GK::S),
            (1, GK::X),
            (1, GK::Z),
            (2, GK::Swap),
            (1, GK::Ccx),
            (1, GK::Xcx),
        ];
        if general {
            k.push((3, GK::Rz));
            k.push((2, GK::Rx));
        }
        k
    };
    let mk = move |general: bool, maxg: usize| {
        move || {
            (
                circ_spec(CircParams {
                    min_q: 1,
                    max_q: 4,
                    max_gates: maxg,
                    kinds: kinds(general),
                    palette: if general { Palette::General } else { Palette::ExactT },
                    max_var: 0,
                }),
                prop::collection::vec(any::<bool>(), 0..=4),
                prop::collection::vec(0u8..4, 0..=4),
                0u8..4,
                any::<u64>(),
                any::<bool>(),
            )
                .prop_map(|(circ, bits, paulis, shots, sample_seed, method2)| Case {
                    circ,
                    bits,
                    paulis,
                    shots,
                    sample_seed,
                    method2,
                })
        }
    };
    PropertyDef {
        id: "C06",
        rule: "random circuits on 1-4 qubits (Clifford+T incl. swap, ccx, xcx; a share with general rz/rx phases) written as QASM and handed to the `quizx sim` binary built from the current tree: -a with a full-length bit string (biased towards the support) and the 1-character broadcast form, -e with full-length, broadcast and lower-case Pauli strings, -s k with the sampler trace hook; each with default/--cats/--bss and with/without --parallel. Printed probability == |<b|C|0>|^2 and printed expectation == <psi|P|psi> from the harness state vector (1e-9; 1e-6 with general phases), identical across methods; every traced Bernoulli draw uses P(x_k = 1 | prefix) (1e-9) whenever P(prefix) > 0, the printed string equals the traced draws and has non-zero probability (no statistical test). Malformed queries (wrong lengths, foreign characters, empty strings, two tasks, two methods, missing file) must exit non-zero without a panic. Non-trivial = the output distribution has >= 2 outcomes and some conditional differs from the joint; every malformed query.",
        assumptions: vec![
            "harness state-vector simulator (see selftest); the reference is the circuit the front end parses from the file",
            "sampler trace/seed hook (feature verif) in cli/sim.rs",
        ],
        sections: vec![
            Section::random("clifford-t", ctx.cases(120, 3000), mk(false, t.pick(14, 22)), check),
            Section::random("general-phases", ctx.cases(30, 600), mk(true, 8), check),
            Section::random(
                "spelled-input",
                ctx.cases(30, 600),
                || {
                    (super::c14::text_case(false), prop::collection::vec(any::<bool>(), 9), any::<u64>())
                        .prop_map(|(text, bits, pick)| SpelledCase { text, bits, pick })
                },
                check_spelled,
            ),
            Section::random(
                "wide-structured",
                ctx.cases(3, 60),
                || {
                    (
                        53usize..=64,
                        // mostly free bits with a few exceptions, so that prefixes of probability
                        // below 2^-52 (and below 2^-60) are the common case
                        prop::collection::vec((any::<u16>(), prop_oneof![Just(0u8), Just(1u8), Just(3u8), Just(3u8), Just(4u8)]), 0..9)
                            .prop_map(|ex| {
                                let mut kinds = vec![2u8; 64];
                                for (p, k) in ex {
                                    kinds[crate::gen::idx(p, 64)] = k;
                                }
                                kinds
                            }),
                        prop::collection::vec(any::<u16>(), 64),
                        0u8..2,
                        any::<u64>(),
                        any::<bool>(),
                        any::<bool>(),
                    )
                        .prop_map(|(n, kinds, src, shots, sample_seed, bss, parallel)| WideCase {
                            n,
                            kinds,
                            src,
                            shots,
                            sample_seed,
                            bss,
                            parallel,
                        })
                },
                check_wide,
            ),
            Section::random(
                "malformed",
                ctx.cases(120, 2000),
                || {
                    (0usize..4, 0u8..9, 0usize..7, 0u8..6).prop_map(|(n, kind, len, junk)| BadCase {
                        n,
                        kind,
                        len,
                        junk,
                    })
                },
                check_bad,
            ),
        ],
    }
}
