//! C13 — qgraph JSON encoding round-trips diagrams.

use super::c16::py_limit_pub;
use super::common::*;
use crate::engine::{Ctx, Obs, PropertyDef, Section};
use crate::gen::diag::{diag_spec, DiagParams, DiagSpec, Palette};
use crate::oracle::diag::{build, read_scalar_shifted, Diag, MScalar, VK};
use crate::oracle::ring::Ring;
use proptest::prelude::*;
use quizx::graph::{EType, GraphLike, VType, V};
use serde::{Deserialize, Serialize};

#[derive(Clone, Debug, Serialize, Deserialize)]
pub struct Case {
    pub spec: DiagSpec,
    /// (row, qubit) per model vertex
    pub coords: Vec<(f64, f64)>,
    /// model spiders (by raw index) turned into H-box vertices with the given phase
    pub hboxes: Vec<(u16, (i64, i64))>,
    /// phases with large denominators put on some spiders
    pub big_phases: Vec<(u16, (i64, i64))>,
    /// permute the input / output lists
    pub in_keys: Vec<u16>,
    pub out_keys: Vec<u16>,
    /// extra power of sqrt2 multiplied into the scalar (magnitudes up to the ends of f64's range)
    #[serde(default)]
    pub scalar_pow: i32,
    /// 0 strings only, 1 also write_graph/read_graph through a file, 2 also the JsonGraph value
    #[serde(default)]
    pub route: u8,
}

struct SG {
    n: usize,
    ty: Vec<VType>,
    phase: Vec<(i64, i64)>,
    coord: Vec<(f64, f64)>,
    io: Vec<(Option<usize>, Option<usize>)>,
    adj: Vec<Vec<(usize, EType)>>,
}

fn sg_of<G: GraphLike>(g: &G) -> SG {
    let mut vs: Vec<V> = g.vertices().collect();
    vs.sort();
    let idx = |v: V| vs.binary_search(&v).unwrap();
    let n = vs.len();
    let mut adj = vec![vec![]; n];
    for (s, t, et) in g.edges() {
        adj[idx(s)].push((idx(t), et));
        adj[idx(t)].push((idx(s), et));
    }
    SG {
        n,
        ty: vs.iter().map(|&v| g.vertex_type(v)).collect(),
        phase: vs
            .iter()
            .map(|&v| {
                let r = g.phase(v).to_rational();
                (*r.numer(), *r.denom())
            })
            .collect(),
        coord: vs.iter().map(|&v| (g.row(v), g.qubit(v))).collect(),
        io: vs
            .iter()
            .map(|&v| {
                (
                    g.inputs().iter().position(|&x| x == v),
                    g.outputs().iter().position(|&x| x == v),
                )
            })
            .collect(),
        adj,
    }
}

fn close(a: f64, b: f64) -> bool {
    (a - b).abs() <= 1e-9 * a.abs().max(b.abs()).max(1e-300)
}

/// search for an isomorphism a -> b preserving types, expected phases, coordinates (1e-9), io
/// positions and edge types.  `want_phase(i)` is the phase vertex i of `a` must have in `b`.
fn anchored_iso(a: &SG, b: &SG, want_phase: &dyn Fn(usize) -> (i64, i64)) -> Result<(), String> {
    if a.n != b.n {
        return Err(format!("{} vertices became {}", a.n, b.n));
    }
    let compat = |i: usize, j: usize| -> bool {
        a.ty[i] == b.ty[j]
            && want_phase(i) == b.phase[j]
            && close(a.coord[i].0, b.coord[j].0)
            && close(a.coord[i].1, b.coord[j].1)
            && a.io[i] == b.io[j]
            && a.adj[i].len() == b.adj[j].len()
    };
    // order: most constrained first
    let mut order: Vec<usize> = (0..a.n).collect();
    let cands: Vec<Vec<usize>> = (0..a.n)
        .map(|i| (0..b.n).filter(|&j| compat(i, j)).collect())
        .collect();
    for i in 0..a.n {
        if cands[i].is_empty() {
            return Err(format!(
                "vertex #{i} (type {:?}, phase {:?} -> expected {:?}, coord {:?}, io {:?}, degree {}) has no counterpart; decoded vertices: {:?}",
                a.ty[i],
                a.phase[i],
                want_phase(i),
                a.coord[i],
                a.io[i],
                a.adj[i].len(),
                (0..b.n).map(|j| (b.ty[j], b.phase[j], b.coord[j], b.io[j], b.adj[j].len())).collect::<Vec<_>>()
            ));
        }
    }
    order.sort_by_key(|&i| cands[i].len());
    let mut map = vec![usize::MAX; a.n];
    let mut used = vec![false; b.n];
    let mut budget = 2_000_000u64;
    fn rec(
        k: usize,
        order: &[usize],
        cands: &[Vec<usize>],
        a: &SG,
        b: &SG,
        map: &mut Vec<usize>,
        used: &mut Vec<bool>,
        budget: &mut u64,
    ) -> Option<bool> {
        if k == order.len() {
            return Some(true);
        }
        let i = order[k];
        for &j in &cands[i] {
            if used[j] {
                continue;
            }
            if *budget == 0 {
                return None;
            }
            *budget -= 1;
            // edges to already-mapped vertices must agree
            let ok = a.adj[i].iter().all(|&(n, et)| {
                map[n] == usize::MAX || b.adj[j].iter().any(|&(m, e2)| m == map[n] && e2 == et)
            });
            if !ok {
                continue;
            }
            map[i] = j;
            used[j] = true;
            match rec(k + 1, order, cands, a, b, map, used, budget) {
                Some(true) => return Some(true),
                None => return None,
                Some(false) => {}
            }
            map[i] = usize::MAX;
            used[j] = false;
        }
        Some(false)
    }
    match rec(0, &order, &cands, a, b, &mut map, &mut used, &mut budget) {
        Some(true) => Ok(()),
        Some(false) => Err("no isomorphism preserving inputs/outputs (in order), types, phases, edge types and coordinates exists".into()),
        None => Err("SEARCH-BUDGET".into()),
    }
}

fn expected_phase(p: (i64, i64)) -> (i64, i64) {
    if p.1 <= 256 {
        p
    } else {
        let (n, d) = py_limit_pub(p.0 as i128, p.1 as i128, 256);
        crate::oracle::diag::norm_phase((n as i64, d as i64))
    }
}

/// `shift`: both values were divided by 2^shift; one unit in the last place of a subnormal f64
/// (the JSON float factor cannot be finer) is 2^-1074, i.e. 2^(-1074-shift) here
fn scalars_match(orig: &MScalar, got: &MScalar, exact_class: bool, shift: i32) -> Result<(), String> {
    if exact_class {
        match (orig, got) {
            (MScalar::Exact(a), MScalar::Exact(b)) if a == b => Ok(()),
            _ => Err(format!(
                "scalar {orig:?} (a power of sqrt2 times e^(i k pi/4)) decoded as {got:?}"
            )),
        }
    } else {
        let (a, b) = (orig.to_c64(), got.to_c64());
        let d = (a - b).norm();
        let quantum = crate::oracle::ring::ldexp(8.0, -1074 - shift);
        if d <= 1e-9 * a.norm().max(b.norm()) + quantum {
            Ok(())
        } else {
            Err(format!(
                "scalar {a} decoded as {b} (relative error {:.3e})",
                d / a.norm().max(b.norm())
            ))
        }
    }
}

fn is_mono(s: &MScalar) -> bool {
    match s {
        MScalar::Exact(z) => {
            // omega^k sqrt2^p : try all k
            (0..8).any(|k| {
                let r = z.mul(&crate::oracle::ring::Zw::omega_pow(-k));
                (r.c[1] == 0 && r.c[2] == 0 && r.c[3] == 0 && r.c[0] == 1)
                    || (r.c[0] == 0 && r.c[2] == 0 && r.c[1] == 1 && r.c[3] == -1)
            })
        }
        _ => false,
    }
}

fn prepare<G: GraphLike>(c: &Case) -> (G, Diag, bool) {
    let mut d = c.spec.to_diag();
    let spiders: Vec<usize> = (0..d.verts.len()).filter(|&i| d.verts[i].kind != VK::B).collect();
    for (raw, p) in &c.big_phases {
        if spiders.is_empty() {
            break;
        }
        let v = spiders[crate::gen::idx(*raw, spiders.len())];
        d.verts[v].phase = crate::oracle::diag::norm_phase(*p);
    }
    // input / output order
    let perm = |list: &mut Vec<usize>, keys: &Vec<u16>| {
        let mut idx: Vec<usize> = (0..list.len()).collect();
        idx.sort_by_key(|&i| (keys.get(i).copied().unwrap_or(0), i));
        *list = idx.iter().map(|&i| list[i]).collect();
    };
    perm(&mut d.inputs, &c.in_keys);
    perm(&mut d.outputs, &c.out_keys);
    let (mut g, ids) = build::<G>(&d, &c.spec.plan);
    for (i, &v) in ids.iter().enumerate() {
        if let Some(&(r, q)) = c.coords.get(i) {
            g.set_row(v, r);
            g.set_qubit(v, q);
        }
    }
    if c.scalar_pow != 0 {
        g.scalar_mut().mul_sqrt2_pow(c.scalar_pow);
    }
    let mut has_hbox = false;
    for (raw, p) in &c.hboxes {
        if spiders.is_empty() {
            break;
        }
        let v = ids[spiders[crate::gen::idx(*raw, spiders.len())]];
        g.set_vertex_type(v, VType::H);
        g.set_phase(v, crate::oracle::diag::to_qphase(*p));
        has_hbox = true;
    }
    (g, d, has_hbox)
}

fn check_roundtrip<G: GraphLike, H: GraphLike + 'static>(
    c: &Case,
    name: &str,
    via_serde: bool,
    obs: &mut Obs,
) -> Result<(), String> {
    let (g, d, has_hbox) = prepare::<G>(c);
    let text = if via_serde {
        // only the hash backend implements serde
        let (hg, _, _) = prepare::<quizx::hash_graph::Graph>(c);
        guarded(&format!("{name}: serde_json::to_string"), || serde_json::to_string(&hg))?
            .map_err(|e| format!("{name}: serialisation failed: {e}"))?
    } else {
        guarded(&format!("{name}: encode_graph"), || quizx::json::encode_graph(&g))?
            .map_err(|e| format!("{name}: encode_graph failed: {e}"))?
    };
    // the other public routes must produce / accept the same document
    if !via_serde && c.route % 3 == 1 {
        // through a file
        let path = super::c03::tmp_path("c13");
        // the path may already hold a (longer) document from an earlier save
        if c.in_keys.len() % 2 == 0 {
            let old = format!("{{\"wire_vertices\":{{}},\"padding\":\"{}\"}}", "x".repeat(text.len() + 64));
            std::fs::write(&path, old).map_err(|e| format!("harness: {e}"))?;
            obs.class("route:file-overwrites-longer");
        }
        let w = guarded(&format!("{name}: write_graph"), || quizx::json::write_graph(&g, &path));
        let back = w.and_then(|r| {
            r.map_err(|e| format!("{name}: write_graph failed: {e}"))?;
            let ftext = std::fs::read_to_string(&path).map_err(|e| format!("harness: {e}"))?;
            let a: serde_json::Value = serde_json::from_str(&ftext).map_err(|e| format!("{name}: write_graph wrote invalid JSON: {e}"))?;
            let b: serde_json::Value = serde_json::from_str(&text).map_err(|e| format!("{name}: encode_graph wrote invalid JSON: {e}"))?;
            if a != b {
                return Err(format!("{name}: write_graph and encode_graph produce different documents"));
            }
            let h2 = guarded(&format!("{name}: read_graph"), || quizx::json::read_graph::<H>(&path))?
                .map_err(|e| format!("{name}: read_graph failed: {e}"))?;
            let h1 = quizx::json::decode_graph::<H>(&text).map_err(|e| format!("{name}: decode_graph failed: {e}"))?;
            let (s1, s2) = (sg_of(&h1), sg_of(&h2));
            match anchored_iso(&s1, &s2, &|i| s1.phase[i]) {
                Ok(()) => {}
                Err(e) if e == "SEARCH-BUDGET" => {}
                Err(e) => return Err(format!("{name}: read_graph and decode_graph give different graphs for the same document: {e}")),
            }
            if h1.scalar() != h2.scalar() {
                return Err(format!("{name}: read_graph and decode_graph give different scalars for the same document"));
            }
            obs.class("route:file");
            Ok(())
        });
        let _ = std::fs::remove_file(&path);
        back?;
    }
    if !via_serde && c.route % 3 == 2 {
        // the JsonGraph value itself, without serialisation
        let jg = guarded(&format!("{name}: JsonGraph::from_graph"), || quizx::json::JsonGraph::from_graph(&g))?
            .map_err(|e| format!("{name}: JsonGraph::from_graph failed: {e}"))?;
        let h2: H = guarded(&format!("{name}: JsonGraph::to_graph"), || jg.to_graph::<H>())?
            .map_err(|e| format!("{name}: JsonGraph::to_graph failed: {e}"))?;
        let h1 = quizx::json::decode_graph::<H>(&text).map_err(|e| format!("{name}: decode_graph failed: {e}"))?;
        let (s1, s2) = (sg_of(&h1), sg_of(&h2));
        match anchored_iso(&s1, &s2, &|i| s1.phase[i]) {
            Ok(()) => {}
            Err(e) if e == "SEARCH-BUDGET" => {}
            Err(e) => return Err(format!("{name}: JsonGraph::to_graph without serialisation and decode_graph(encode_graph) give different graphs: {e}")),
        }
        // (serde_json prints and parses floats to within an ulp, so no bit equality here)
        let shift = c.scalar_pow / 2;
        let (x1, x2) = (read_scalar_shifted(h1.scalar(), shift), read_scalar_shifted(h2.scalar(), shift));
        scalars_match(&x1, &x2, is_mono(&x1), shift)
            .map_err(|e| format!("{name}: JsonGraph::to_graph without serialisation and decode_graph(encode_graph) give different scalars: {e}"))?;
        obs.class("route:value");
    }
    let h: H = if via_serde {
        // H == hash_graph::Graph here
        let hg: quizx::hash_graph::Graph = guarded(&format!("{name}: serde_json::from_str"), || {
            serde_json::from_str::<quizx::hash_graph::Graph>(&text)
        })?
        .map_err(|e| format!("{name}: deserialisation failed: {e}"))?;
        // re-encode through the generic path to get an H (only used with H = hash graph)
        let t2 = quizx::json::encode_graph(&hg).map_err(|e| format!("{e}"))?;
        let _ = t2;
        let any: Box<dyn std::any::Any> = Box::new(hg);
        *any.downcast::<H>().expect("serde path is only used with the hash backend")
    } else {
        guarded(&format!("{name}: decode_graph"), || quizx::json::decode_graph::<H>(&text))?
            .map_err(|e| format!("{name}: decode_graph failed: {e}; json: {text}"))?
    };
    let a = sg_of(&g);
    let b = sg_of(&h);
    match anchored_iso(&a, &b, &|i| {
        if a.ty[i] == VType::B {
            a.phase[i]
        } else {
            expected_phase(a.phase[i])
        }
    }) {
        Ok(()) => {}
        Err(e) if e == "SEARCH-BUDGET" => {
            obs.skip("isomorphism-search-budget");
        }
        Err(e) => return Err(format!("{name}: decoded graph is not isomorphic to the original: {e}")),
    }
    if g.inputs().len() != h.inputs().len() || g.outputs().len() != h.outputs().len() {
        return Err(format!("{name}: number of inputs/outputs changed"));
    }
    // scalar
    let shift = c.scalar_pow / 2;
    let so = read_scalar_shifted(g.scalar(), shift);
    let sd = read_scalar_shifted(h.scalar(), shift);
    obs.class_if(c.scalar_pow <= -2044, "scalar:subnormal-modulus");
    obs.class_if(c.scalar_pow.abs() >= 1000, "scalar:extreme-modulus");
    let mono = is_mono(&so);
    obs.class_if(mono, "scalar:sqrt2-power-times-phase");
    obs.class_if(!mono, "scalar:general");
    scalars_match(&so, &sd, mono, shift).map_err(|e| format!("{name}: {e}"))?;
    // a second round trip starting from the decoded diagram (decoded diagrams are diagrams too):
    // phases are already within the exact class now, so everything must be preserved exactly
    if !via_serde {
        let text2 = guarded(&format!("{name}: encode_graph of the decoded diagram"), || quizx::json::encode_graph(&h))?
            .map_err(|e| format!("{name}: encode_graph of the decoded diagram failed: {e}"))?;
        let h2: H = guarded(&format!("{name}: decode_graph (second round trip)"), || quizx::json::decode_graph::<H>(&text2))?
            .map_err(|e| format!("{name}: second decode_graph failed: {e}"))?;
        let (s1, s2) = (sg_of(&h), sg_of(&h2));
        match anchored_iso(&s1, &s2, &|i| s1.phase[i]) {
            Ok(()) => {}
            Err(e) if e == "SEARCH-BUDGET" => {}
            Err(e) => return Err(format!("{name}: a second round trip starting from the decoded diagram does not preserve it: {e}")),
        }
        let sd2 = read_scalar_shifted(h2.scalar(), shift);
        scalars_match(&sd, &sd2, is_mono(&sd), shift).map_err(|e| format!("{name}: second round trip: {e}"))?;
    }
    // semantics (no H-boxes, phases within the exact class)
    if !has_hbox && c.scalar_pow.abs() <= 600 && d.verts.iter().all(|v| v.phase.1 <= 256) {
        if let (GraphTruth::Ok(t0), GraphTruth::Ok(t1)) = (graph_truth(&g), graph_truth(&h)) {
            same_truth(&t0, &t1, REL_TOL).map_err(|e| format!("{name}: decoded diagram denotes a different map: {e}"))?;
        }
    }
    Ok(())
}

fn check(c: &Case, obs: &mut Obs) -> Result<(), String> {
    let d = c.spec.to_diag();
    let has_h = d.edges.iter().any(|e| e.2);
    let has_phase = d.verts.iter().any(|v| v.phase.0 != 0);
    let unsorted = c.in_keys.len() >= 2 || c.out_keys.len() >= 2;
    if has_h && has_phase && (d.inputs.len() >= 2 || d.outputs.len() >= 2) && unsorted {
        obs.nontrivial();
    }
    obs.class_if(!c.hboxes.is_empty(), "h-box");
    obs.class_if(!c.big_phases.is_empty(), "phase-denominator>256");
    use quizx::hash_graph::Graph as HG;
    use quizx::vec_graph::Graph as VG;
    check_roundtrip::<VG, VG>(c, "vec->vec", false, obs)?;
    check_roundtrip::<HG, HG>(c, "hash->hash", false, obs)?;
    check_roundtrip::<VG, HG>(c, "vec->hash", false, obs)?;
    check_roundtrip::<HG, HG>(c, "hash serde", true, obs)?;
    Ok(())
}

fn coord() -> BoxedStrategy<f64> {
    prop_oneof![
        3 => (-40i32..=40).prop_map(|k| k as f64 / 4.0),
        1 => prop::sample::select(vec![0.1f64, 3.14159, 1e-3, -2.5e7, 123456.789, 1.0 / 3.0, 2.0f64.sqrt()]),
        1 => -1000.0f64..1000.0,
    ]
    .boxed()
}

pub fn def(ctx: &Ctx) -> PropertyDef {
    let t = ctx.tier;
    let ms = t.pick(7, 10);
    let mk = move |pal: Palette| {
        move || {
            let mut p = DiagParams::general(ms, 4, pal);
            p.max_wires = 2;
            (
                diag_spec(p),
                prop::collection::vec((coord(), coord()), 0..=(ms + 8)),
                prop::collection::vec(
                    (any::<u16>(), prop_oneof![Just((1i64, 1i64)), Just((0, 1)), Just((1, 2))]),
                    0..=1,
                ),
                prop::collection::vec(
                    (
                        any::<u16>(),
                        (1i64..2000, prop::sample::select(vec![257i64, 300, 512, 1000, 1021, 4096])),
                    ),
                    0..=1,
                ),
                prop::collection::vec(any::<u16>(), 0..=4),
                prop::collection::vec(any::<u16>(), 0..=4),
                // moduli from 2^-1034 (inside the subnormal band) to 2^1000
                prop_oneof![
                    12 => Just(0i32),
                    2 => -300i32..=300,
                    1 => -2068i32..=-2040,
                    1 => -2040i32..=-1800,
                    1 => 1800i32..=2000,
                ],
                prop_oneof![3 => Just(0u8), 1 => Just(1u8), 2 => Just(2u8)],
            )
                .prop_map(|(spec, coords, hboxes, big_phases, in_keys, out_keys, scalar_pow, route)| Case {
                    spec,
                    coords,
                    hboxes,
                    big_phases,
                    in_keys,
                    out_keys,
                    scalar_pow,
                    route,
                })
        }
    };
    PropertyDef {
        id: "C13",
        rule: "random well-formed diagrams (Z/X spiders, occasional H-box vertices, both edge types incl. Hadamard edges at boundaries and boundary-boundary wires, rational phases with denominators <=256 and a few larger ones, grid and arbitrary finite coordinates, permuted input/output lists, scalars: sqrt2-power times e^(i k pi/4), general Z[omega] elements, floats, each optionally scaled by sqrt2^p so that moduli range from 2^-1034 — inside f64's subnormal band — to 2^1000), in both backends with id holes: encode_graph must succeed, decode_graph (into both backends) and serde of the hash backend must yield a graph for which an input/output-anchored isomorphism exists that preserves types, phases (exactly for d<=256, else the closest fraction with d<=256), edge types and coordinates (1e-9); scalar exactly equal in the exact class, 1e-9 relative otherwise; harness evaluation equal. Non-trivial = has a Hadamard edge, a non-zero phase, >=2 inputs or outputs and a permuted boundary list. Distinct by hash of the case.",
        assumptions: vec![
            "backtracking isomorphism search with a budget (exceeding it is counted as skipped)",
            "coordinates compared to 1e-9 relative (serde_json is built without exact float round-tripping)",
        ],
        sections: vec![
            Section::random("exact", ctx.cases(2500, 60000), mk(Palette::ExactT), check),
            Section::random("general", ctx.cases(1500, 40000), mk(Palette::General), check),
        ],
    }
}
