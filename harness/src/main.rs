use qv::engine::{self, Ctx, KnownFindings, Tier};
use std::path::PathBuf;
use std::sync::Arc;

fn usage() -> ! {
    eprintln!(
        "usage: qv check <ID> [--tier quick|thorough] [--seed N]\n       qv replay <file> [--lenient]\n       qv selftest\n       qv list"
    );
    std::process::exit(2)
}

fn main() {
    engine::install_panic_hook();
    let args: Vec<String> = std::env::args().collect();
    if args.len() < 2 {
        usage();
    }
    let verif_dir = PathBuf::from(
        std::env::var("VERIF_DIR").unwrap_or_else(|_| "/verif".to_string()),
    );
    let mut tier = match std::env::var("VERIF_TIER").as_deref() {
        Ok("thorough") => Tier::Thorough,
        _ => Tier::Quick,
    };
    let mut seed: u64 = std::env::var("VERIF_SEED")
        .ok()
        .and_then(|s| s.trim().parse::<i128>().ok())
        .map(|x| x as u64)
        .unwrap_or(0);
    let scale: f64 = std::env::var("VERIF_SCALE")
        .ok()
        .and_then(|s| s.parse().ok())
        .unwrap_or(1.0);
    let mut lenient = false;
    let mut pos: Vec<String> = vec![];
    let mut i = 2;
    while i < args.len() {
        match args[i].as_str() {
            "--tier" => {
                i += 1;
                tier = match args.get(i).map(|s| s.as_str()) {
                    Some("quick") => Tier::Quick,
                    Some("thorough") => Tier::Thorough,
                    _ => usage(),
                };
            }
            "--seed" => {
                i += 1;
                seed = args
                    .get(i)
                    .and_then(|s| s.parse::<i128>().ok())
                    .map(|x| x as u64)
                    .unwrap_or_else(|| usage());
            }
            "--lenient" => lenient = true,
            s => pos.push(s.to_string()),
        }
        i += 1;
    }
    // quizx evaluates Hadamards with rayon; keep its global pool small, the harness parallelises
    // over shards itself
    let _ = rayon::ThreadPoolBuilder::new().num_threads(2).build_global();
    let known = Arc::new(KnownFindings::load(&verif_dir.join("known_findings.json")));
    let mk_ctx = |prop: &'static str| Ctx {
        prop,
        tier,
        seed,
        verif_dir: verif_dir.clone(),
        known: known.clone(),
        scale,
    };
    match args[1].as_str() {
        "list" => {
            for id in qv::props::ids() {
                println!("{id}");
            }
        }
        "selftest" => {
            let code = qv::selftest::run(seed);
            std::process::exit(code);
        }
        "check" => {
            let Some(id) = pos.first() else { usage() };
            let Some(sid) = qv::props::ids().into_iter().find(|x| x == id) else {
                eprintln!("unknown property {id}");
                std::process::exit(2);
            };
            let ctx = mk_ctx(sid);
            let def = qv::props::get(sid, &ctx).expect("property definition");
            let code = engine::run_property(&ctx, def);
            std::process::exit(code);
        }
        "fuzz-seeds" => {
            // qv fuzz-seeds <ID> <section> <dir> [n]: write byte strings reproducing ordinary cases
            let (Some(id), Some(section), Some(dir)) = (pos.first(), pos.get(1), pos.get(2)) else { usage() };
            let n: usize = pos.get(3).and_then(|s| s.parse().ok()).unwrap_or(64);
            let h = engine::fuzz_open(id, section, &verif_dir).unwrap_or_else(|e| {
                eprintln!("{e}");
                std::process::exit(2)
            });
            let _ = std::fs::create_dir_all(dir);
            for (i, b) in h.seeds(n).into_iter().enumerate() {
                let _ = std::fs::write(PathBuf::from(dir).join(format!("seed-{i:04}")), b);
            }
        }
        "fuzz-one" => {
            // qv fuzz-one <ID> <section> <file>: run one byte string (replay of a fuzzer input)
            let (Some(id), Some(section), Some(file)) = (pos.first(), pos.get(1), pos.get(2)) else { usage() };
            let h = engine::fuzz_open(id, section, &verif_dir).unwrap_or_else(|e| {
                eprintln!("{e}");
                std::process::exit(2)
            });
            let data = std::fs::read(file).unwrap_or_else(|e| {
                eprintln!("cannot read {file}: {e}");
                std::process::exit(2)
            });
            match h.one(&data) {
                engine::FuzzOutcome::Violation(msg, _) => {
                    println!("  violation: {msg}");
                    println!("VIOLATION property={id} replay={file}");
                    std::process::exit(1);
                }
                engine::FuzzOutcome::HarnessError(e) => {
                    println!("HARNESS-ERROR {e}");
                    std::process::exit(2);
                }
                o => {
                    println!("replay: PASS property={id} section={section} ({o:?})");
                }
            }
        }
        "replay" => {
            let Some(file) = pos.first() else { usage() };
            let s = std::fs::read_to_string(file).unwrap_or_else(|e| {
                eprintln!("cannot read {file}: {e}");
                std::process::exit(2)
            });
            let v: serde_json::Value = serde_json::from_str(&s).unwrap_or_else(|e| {
                eprintln!("bad JSON: {e}");
                std::process::exit(2)
            });
            let pid = v
                .get("property")
                .and_then(|x| x.as_str())
                .unwrap_or("")
                .to_string();
            let Some(sid) = qv::props::ids().into_iter().find(|x| *x == pid) else {
                eprintln!("unknown property {pid}");
                std::process::exit(2);
            };
            let ctx = mk_ctx(sid);
            let def = qv::props::get(sid, &ctx).expect("property definition");
            let code = engine::replay_file(&ctx, &def, &PathBuf::from(file), lenient);
            std::process::exit(code);
        }
        _ => usage(),
    }
}
