//! Circuit model and an independent dense gate-matrix simulator.
//!
//! Conventions: qubit 0 is the most significant bit; the result is a tensor indexed by the input
//! qubits (those without ancilla initialisation) then the output qubits (those not post-selected or
//! destructively measured), each in qubit order.

use super::diag::to_qphase;
use super::ring::Ring;
use super::zxeval::Tens;
use quizx::circuit::Circuit;
use quizx::gate::{GType, Gate};
use quizx::params::Parity;
use serde::{Deserialize, Serialize};

#[derive(Clone, Copy, Debug, PartialEq, Eq, Hash, Serialize, Deserialize)]
pub enum GK {
    Rz,
    Rx,
    X,
    Z,
    S,
    T,
    Sdg,
    Tdg,
    H,
    Cx,
    Cz,
    Ccx,
    Ccz,
    Swap,
    Xcx,
    Pp,
    InitAnc,
    PostSel,
    MeasureD,
    MeasureR,
}

impl GK {
    pub fn gtype(self) -> GType {
        match self {
            GK::Rz => GType::ZPhase,
            GK::Rx => GType::XPhase,
            GK::X => GType::NOT,
            GK::Z => GType::Z,
            GK::S => GType::S,
            GK::T => GType::T,
            GK::Sdg => GType::Sdg,
            GK::Tdg => GType::Tdg,
            GK::H => GType::HAD,
            GK::Cx => GType::CNOT,
            GK::Cz => GType::CZ,
            GK::Ccx => GType::TOFF,
            GK::Ccz => GType::CCZ,
            GK::Swap => GType::SWAP,
            GK::Xcx => GType::XCX,
            GK::Pp => GType::ParityPhase,
            GK::InitAnc => GType::InitAncilla,
            GK::PostSel => GType::PostSelect,
            GK::MeasureD => GType::Measure,
            GK::MeasureR => GType::MeasureReset,
        }
    }
    pub fn from_gtype(t: GType) -> Option<GK> {
        Some(match t {
            GType::ZPhase => GK::Rz,
            GType::XPhase => GK::Rx,
            GType::NOT => GK::X,
            GType::Z => GK::Z,
            GType::S => GK::S,
            GType::T => GK::T,
            GType::Sdg => GK::Sdg,
            GType::Tdg => GK::Tdg,
            GType::HAD => GK::H,
            GType::CNOT => GK::Cx,
            GType::CZ => GK::Cz,
            GType::TOFF => GK::Ccx,
            GType::CCZ => GK::Ccz,
            GType::SWAP => GK::Swap,
            GType::XCX => GK::Xcx,
            GType::ParityPhase => GK::Pp,
            GType::InitAncilla => GK::InitAnc,
            GType::PostSelect => GK::PostSel,
            GType::Measure => GK::MeasureD,
            GType::MeasureReset => GK::MeasureR,
            GType::UnknownGate => return None,
        })
    }
    pub fn arity(self) -> Option<usize> {
        match self {
            GK::Cx | GK::Cz | GK::Swap | GK::Xcx => Some(2),
            GK::Ccx | GK::Ccz => Some(3),
            GK::Pp => None,
            _ => Some(1),
        }
    }
    pub fn has_phase(self) -> bool {
        matches!(self, GK::Rz | GK::Rx | GK::Pp)
    }
    pub fn is_unitary(self) -> bool {
        !matches!(
            self,
            GK::InitAnc | GK::PostSel | GK::MeasureD | GK::MeasureR
        )
    }
    pub fn is_entangling(self) -> bool {
        matches!(
            self,
            GK::Cx | GK::Cz | GK::Ccx | GK::Ccz | GK::Xcx
        )
    }
}

#[derive(Clone, Debug, PartialEq, Eq, Hash, Serialize, Deserialize)]
pub struct MGate {
    pub k: GK,
    pub qs: Vec<usize>,
    pub phase: (i64, i64),
    /// explicit outcome variable for measurements (empty = fresh)
    pub vars: Vec<u32>,
}

impl MGate {
    pub fn new(k: GK, qs: Vec<usize>) -> MGate {
        MGate {
            k,
            qs,
            phase: (0, 1),
            vars: vec![],
        }
    }
    pub fn ph(k: GK, qs: Vec<usize>, phase: (i64, i64)) -> MGate {
        MGate {
            k,
            qs,
            phase,
            vars: vec![],
        }
    }
}

#[derive(Clone, Debug, PartialEq, Eq, Hash, Serialize, Deserialize)]
pub struct Circ {
    pub n: usize,
    pub gates: Vec<MGate>,
}

impl Circ {
    /// The quizx circuit with this gate list.  How the list is laid out in quizx's gate deque is
    /// not part of any contract, so it is varied as a function of the circuit: two thirds of the
    /// circuits are built by `push` alone, the rest from a split point outwards with
    /// `push_front` / `push_back` (a wrapped ring buffer).
    pub fn to_quizx(&self) -> Circuit {
        use std::hash::{Hash, Hasher};
        let mut h = std::collections::hash_map::DefaultHasher::new();
        self.hash(&mut h);
        let x = h.finish();
        if self.gates.len() >= 2 && x % 3 == 0 {
            self.to_quizx_layout(((x >> 8) % (self.gates.len() as u64 + 1)) as usize)
        } else {
            self.to_quizx_layout(0)
        }
    }

    fn qgate(g: &MGate) -> Gate {
        Gate::new_with_phase_and_vars(g.k.gtype(), g.qs.clone(), to_qphase(g.phase), Parity::new(g.vars.clone(), false))
    }

    /// gates[split..] appended with `push_back`, gates[..split] prepended with `push_front`,
    /// alternating between the two ends
    pub fn to_quizx_layout(&self, split: usize) -> Circuit {
        let mut c = Circuit::new(self.n);
        let split = split.min(self.gates.len());
        if split == 0 {
            for g in &self.gates {
                c.push(Self::qgate(g));
            }
            return c;
        }
        let (mut lo, mut hi) = (split, split);
        while lo > 0 || hi < self.gates.len() {
            if lo > 0 {
                lo -= 1;
                c.push_front(Self::qgate(&self.gates[lo]));
            }
            if hi < self.gates.len() {
                c.push_back(Self::qgate(&self.gates[hi]));
                hi += 1;
            }
        }
        c
    }

    pub fn from_quizx(c: &Circuit) -> Option<Circ> {
        let mut gates = vec![];
        for g in &c.gates {
            let k = GK::from_gtype(g.t)?;
            let r = g.phase.to_rational();
            gates.push(MGate {
                k,
                qs: g.qs.clone(),
                phase: (*r.numer(), *r.denom()),
                vars: g.vars.iter().collect(),
            });
        }
        Some(Circ {
            n: c.num_qubits(),
            gates,
        })
    }

    pub fn is_unitary(&self) -> bool {
        self.gates.iter().all(|g| g.k.is_unitary())
    }

    pub fn all_phases_quarter(&self) -> bool {
        self.gates
            .iter()
            .all(|g| !g.k.has_phase() || 4 % g.phase.1 == 0)
    }

    /// qubits whose first operation is an ancilla initialisation
    pub fn ancilla_qubits(&self) -> Vec<usize> {
        let mut touched = vec![false; self.n];
        let mut anc = vec![];
        for g in &self.gates {
            if g.k == GK::InitAnc {
                let q = g.qs[0];
                if !touched[q] {
                    anc.push(q);
                }
            }
            for &q in &g.qs {
                touched[q] = true;
            }
        }
        anc.sort();
        anc
    }

    /// The variable each measurement gate uses, mirroring the translation's numbering of fresh
    /// variables (one more than the largest explicit variable, in gate order).
    pub fn measurement_vars(&self) -> Vec<Option<u32>> {
        let mut fresh: u32 = self
            .gates
            .iter()
            .filter_map(|g| g.vars.iter().max().copied())
            .max()
            .map_or(0, |m| m + 1);
        self.gates
            .iter()
            .map(|g| {
                if matches!(g.k, GK::MeasureD | GK::MeasureR) {
                    if g.vars.is_empty() {
                        let v = fresh;
                        fresh += 1;
                        Some(v)
                    } else {
                        // XOR of several variables is allowed; represented by the first and the
                        // others are folded in by the caller through `outcome`
                        Some(u32::MAX)
                    }
                } else {
                    None
                }
            })
            .collect()
    }
}

#[derive(Debug, Clone, PartialEq)]
pub enum SimErr {
    NotRepresentable,
    Unsupported(String),
}

struct State<R> {
    live: Vec<usize>, // qubit labels, ascending; row bit position 0 = most significant
    cols: usize,
    data: Vec<R>, // index = c * rows + r
}

impl<R: Ring> State<R> {
    fn rows(&self) -> usize {
        1 << self.live.len()
    }
    fn pos(&self, q: usize) -> Option<usize> {
        self.live.iter().position(|&x| x == q)
    }
    fn mask(&self, q: usize) -> usize {
        let p = self.pos(q).expect("gate on a dead qubit");
        1 << (self.live.len() - 1 - p)
    }
    fn diag(&mut self, f: impl Fn(usize) -> Option<R>) {
        let rows = self.rows();
        for c in 0..self.cols {
            for r in 0..rows {
                if let Some(x) = f(r) {
                    let i = c * rows + r;
                    self.data[i] = self.data[i].mul(&x);
                }
            }
        }
    }
    fn hadamard(&mut self, q: usize) {
        let m = self.mask(q);
        let rows = self.rows();
        let s = R::sqrt2_pow(-1);
        for c in 0..self.cols {
            for r in 0..rows {
                if r & m == 0 {
                    let i0 = c * rows + r;
                    let i1 = c * rows + (r | m);
                    let a = self.data[i0].clone();
                    let b = self.data[i1].clone();
                    self.data[i0] = a.add(&b).mul(&s);
                    self.data[i1] = a.add(&b.neg()).mul(&s);
                }
            }
        }
    }
    /// new[r] = old[perm(r)]
    fn permute(&mut self, perm: impl Fn(usize) -> usize) {
        let rows = self.rows();
        let mut nd = self.data.clone();
        for c in 0..self.cols {
            for r in 0..rows {
                nd[c * rows + r] = self.data[c * rows + perm(r)].clone();
            }
        }
        self.data = nd;
    }
    /// keep rows whose bit q equals `b`, dropping that bit
    fn project_drop(&mut self, q: usize, b: bool) {
        let p = self.pos(q).expect("projection on a dead qubit");
        let m = self.mask(q);
        let rows = self.rows();
        let mut nd = Vec::with_capacity(self.data.len() / 2);
        for c in 0..self.cols {
            for r in 0..rows {
                if ((r & m) != 0) == b {
                    nd.push(self.data[c * rows + r].clone());
                }
            }
        }
        self.data = nd;
        self.live.remove(p);
    }
    /// |0><b| on qubit q
    fn project_reset(&mut self, q: usize, b: bool) {
        let m = self.mask(q);
        let rows = self.rows();
        let mut nd = vec![R::zero(); self.data.len()];
        for c in 0..self.cols {
            for r in 0..rows {
                if r & m == 0 {
                    let src = if b { r | m } else { r };
                    nd[c * rows + r] = self.data[c * rows + src].clone();
                }
            }
        }
        self.data = nd;
    }
}

/// Simulate `c`; `outcome(gate index, explicit vars, fresh var)` gives the measurement outcome of a
/// measurement gate.
pub fn simulate_with<R: Ring>(
    c: &Circ,
    outcome: &dyn Fn(usize, &[u32], Option<u32>) -> bool,
) -> Result<Tens<R>, SimErr> {
    simulate_opts(c, outcome, false)
}

/// State vector C|0..0> (all qubits initialised to |0>): a tensor without inputs.
pub fn simulate_state<R: Ring>(c: &Circ) -> Result<Tens<R>, SimErr> {
    simulate_opts(c, &|_, _, _| false, true)
}

fn simulate_opts<R: Ring>(
    c: &Circ,
    outcome: &dyn Fn(usize, &[u32], Option<u32>) -> bool,
    zero_input: bool,
) -> Result<Tens<R>, SimErr> {
    let anc = c.ancilla_qubits();
    let inputs: Vec<usize> = if zero_input {
        vec![]
    } else {
        (0..c.n).filter(|q| !anc.contains(q)).collect()
    };
    let live: Vec<usize> = (0..c.n).collect();
    let cols = 1usize << inputs.len();
    let rows = 1usize << c.n;
    let mut st = State::<R> {
        live,
        cols,
        data: vec![R::zero(); rows * cols],
    };
    for col in 0..cols {
        // row with input bits copied and ancilla bits zero
        let mut r = 0usize;
        for (k, &q) in inputs.iter().enumerate() {
            let b = (col >> (inputs.len() - 1 - k)) & 1;
            r |= b << (c.n - 1 - q);
        }
        st.data[col * rows + r] = R::one();
    }
    let mvars = c.measurement_vars();
    let mut touched = vec![false; c.n];
    for (gi, g) in c.gates.iter().enumerate() {
        let ph = |p: (i64, i64)| R::from_phase(p.0, p.1).ok_or(SimErr::NotRepresentable);
        if let Some(a) = g.k.arity() {
            if g.qs.len() != a {
                return Err(SimErr::Unsupported(format!("{:?} with {} qubits", g.k, g.qs.len())));
            }
        }
        for &q in &g.qs {
            if q >= c.n {
                return Err(SimErr::Unsupported("qubit out of range".into()));
            }
            if st.pos(q).is_none() {
                return Err(SimErr::Unsupported("gate after post-selection".into()));
            }
        }
        match g.k {
            GK::Rz | GK::Z | GK::S | GK::T | GK::Sdg | GK::Tdg => {
                let p = match g.k {
                    GK::Rz => g.phase,
                    GK::Z => (1, 1),
                    GK::S => (1, 2),
                    GK::T => (1, 4),
                    GK::Sdg => (-1, 2),
                    _ => (-1, 4),
                };
                let f = ph(p)?;
                let m = st.mask(g.qs[0]);
                st.diag(|r| if r & m != 0 { Some(f.clone()) } else { None });
            }
            GK::Rx | GK::X => {
                let p = if g.k == GK::X { (1, 1) } else { g.phase };
                let f = ph(p)?;
                st.hadamard(g.qs[0]);
                let m = st.mask(g.qs[0]);
                st.diag(|r| if r & m != 0 { Some(f.clone()) } else { None });
                st.hadamard(g.qs[0]);
            }
            GK::H => st.hadamard(g.qs[0]),
            GK::Cx => {
                let (mc, mt) = (st.mask(g.qs[0]), st.mask(g.qs[1]));
                st.permute(|r| if r & mc != 0 { r ^ mt } else { r });
            }
            GK::Cz => {
                let (m0, m1) = (st.mask(g.qs[0]), st.mask(g.qs[1]));
                let f = R::one().neg();
                st.diag(|r| {
                    if r & m0 != 0 && r & m1 != 0 {
                        Some(f.clone())
                    } else {
                        None
                    }
                });
            }
            GK::Ccz => {
                let (m0, m1, m2) = (st.mask(g.qs[0]), st.mask(g.qs[1]), st.mask(g.qs[2]));
                let f = R::one().neg();
                st.diag(|r| {
                    if r & m0 != 0 && r & m1 != 0 && r & m2 != 0 {
                        Some(f.clone())
                    } else {
                        None
                    }
                });
            }
            GK::Ccx => {
                let (m0, m1, m2) = (st.mask(g.qs[0]), st.mask(g.qs[1]), st.mask(g.qs[2]));
                st.permute(|r| {
                    if r & m0 != 0 && r & m1 != 0 {
                        r ^ m2
                    } else {
                        r
                    }
                });
            }
            GK::Swap => {
                let (m0, m1) = (st.mask(g.qs[0]), st.mask(g.qs[1]));
                st.permute(|r| {
                    let b0 = r & m0 != 0;
                    let b1 = r & m1 != 0;
                    if b0 != b1 {
                        r ^ m0 ^ m1
                    } else {
                        r
                    }
                });
            }
            GK::Xcx => {
                st.hadamard(g.qs[0]);
                st.hadamard(g.qs[1]);
                let (m0, m1) = (st.mask(g.qs[0]), st.mask(g.qs[1]));
                let f = R::one().neg();
                st.diag(|r| {
                    if r & m0 != 0 && r & m1 != 0 {
                        Some(f.clone())
                    } else {
                        None
                    }
                });
                st.hadamard(g.qs[0]);
                st.hadamard(g.qs[1]);
            }
            GK::Pp => {
                if !g.qs.is_empty() {
                    let f = ph(g.phase)?;
                    let ms: Vec<usize> = g.qs.iter().map(|&q| st.mask(q)).collect();
                    st.diag(|r| {
                        let par = ms.iter().filter(|&&m| r & m != 0).count() % 2;
                        if par == 1 {
                            Some(f.clone())
                        } else {
                            None
                        }
                    });
                }
            }
            GK::InitAnc => {
                if touched[g.qs[0]] {
                    return Err(SimErr::Unsupported(
                        "ancilla initialisation after the qubit was used".into(),
                    ));
                }
            }
            GK::PostSel => st.project_drop(g.qs[0], false),
            GK::MeasureD => {
                let b = outcome(gi, &g.vars, mvars[gi].filter(|&v| v != u32::MAX));
                st.project_drop(g.qs[0], b);
            }
            GK::MeasureR => {
                let b = outcome(gi, &g.vars, mvars[gi].filter(|&v| v != u32::MAX));
                st.project_reset(g.qs[0], b);
            }
        }
        for &q in &g.qs {
            touched[q] = true;
        }
    }
    Ok(Tens {
        n_in: inputs.len(),
        n_out: st.live.len(),
        data: st.data,
        scale: 1.0,
    })
}

pub fn simulate<R: Ring>(c: &Circ) -> Result<Tens<R>, SimErr> {
    simulate_with(c, &|_, _, _| false)
}

/// U[r][c] of a unitary circuit (row-major n x n)
pub fn unitary<R: Ring>(c: &Circ) -> Result<Vec<Vec<R>>, SimErr> {
    let t = simulate::<R>(c)?;
    let n = 1usize << c.n;
    assert_eq!(t.data.len(), n * n);
    let mut u = vec![vec![R::zero(); n]; n];
    for col in 0..n {
        for r in 0..n {
            u[r][col] = t.data[col * n + r].clone();
        }
    }
    Ok(u)
}

pub fn matmul<R: Ring>(a: &[Vec<R>], b: &[Vec<R>]) -> Vec<Vec<R>> {
    let n = a.len();
    let m = b[0].len();
    let k = b.len();
    let mut out = vec![vec![R::zero(); m]; n];
    for i in 0..n {
        for l in 0..k {
            if a[i][l].is_zero() {
                continue;
            }
            for j in 0..m {
                if !b[l][j].is_zero() {
                    out[i][j] = out[i][j].add(&a[i][l].mul(&b[l][j]));
                }
            }
        }
    }
    out
}

pub fn dagger<R: Ring>(a: &[Vec<R>]) -> Vec<Vec<R>> {
    let n = a.len();
    let m = a[0].len();
    let mut out = vec![vec![R::zero(); n]; m];
    for i in 0..n {
        for j in 0..m {
            out[j][i] = a[i][j].conj();
        }
    }
    out
}

pub fn flatten<R: Ring>(a: &[Vec<R>]) -> Vec<R> {
    a.iter().flat_map(|r| r.iter().cloned()).collect()
}

/// Translate a circuit into a ZX-diagram by the harness's own (textbook) gate-by-gate rules; used to
/// cross-check the two oracles against each other in the self-test.
pub fn to_diag(c: &Circ) -> Option<super::diag::Diag> {
    use super::diag::{Diag, MScalar, VK};
    use super::ring::Zw;
    if !c.is_unitary() {
        return None;
    }
    let mut d = Diag::empty();
    let mut sq2 = 0i32;
    // current frontier vertex per qubit and pending edge type
    let mut front: Vec<usize> = vec![];
    for _ in 0..c.n {
        let b = d.add_vert(VK::B, (0, 1));
        d.inputs.push(b);
        front.push(b);
    }
    let mut pend_h = vec![false; c.n];
    let mut add = |d: &mut Diag, q: usize, kind: VK, phase: (i64, i64), front: &mut Vec<usize>, pend_h: &mut Vec<bool>| -> usize {
        let v = d.add_vert(kind, phase);
        d.add_edge(front[q], v, pend_h[q]);
        pend_h[q] = false;
        front[q] = v;
        v
    };
    for g in &c.gates {
        match g.k {
            GK::Rz | GK::Z | GK::S | GK::T | GK::Sdg | GK::Tdg => {
                let p = match g.k {
                    GK::Rz => g.phase,
                    GK::Z => (1, 1),
                    GK::S => (1, 2),
                    GK::T => (1, 4),
                    GK::Sdg => (-1, 2),
                    _ => (-1, 4),
                };
                add(&mut d, g.qs[0], VK::Z, p, &mut front, &mut pend_h);
            }
            GK::Rx => {
                add(&mut d, g.qs[0], VK::X, g.phase, &mut front, &mut pend_h);
            }
            GK::X => {
                add(&mut d, g.qs[0], VK::X, (1, 1), &mut front, &mut pend_h);
            }
            GK::H => {
                // materialise as a phase-free Z spider to avoid HH bookkeeping
                add(&mut d, g.qs[0], VK::Z, (0, 1), &mut front, &mut pend_h);
                pend_h[g.qs[0]] = true;
            }
            GK::Cx => {
                let a = add(&mut d, g.qs[0], VK::Z, (0, 1), &mut front, &mut pend_h);
                let b = add(&mut d, g.qs[1], VK::X, (0, 1), &mut front, &mut pend_h);
                d.add_edge(a, b, false);
                sq2 += 1;
            }
            GK::Cz => {
                let a = add(&mut d, g.qs[0], VK::Z, (0, 1), &mut front, &mut pend_h);
                let b = add(&mut d, g.qs[1], VK::Z, (0, 1), &mut front, &mut pend_h);
                d.add_edge(a, b, true);
                sq2 += 1;
            }
            GK::Swap => {
                front.swap(g.qs[0], g.qs[1]);
                pend_h.swap(g.qs[0], g.qs[1]);
            }
            _ => return None,
        }
    }
    for q in 0..c.n {
        let b = d.add_vert(VK::B, (0, 1));
        d.add_edge(front[q], b, pend_h[q]);
        d.outputs.push(b);
    }
    d.scalar = MScalar::Exact(<Zw as Ring>::sqrt2_pow(sq2));
    Some(d)
}
