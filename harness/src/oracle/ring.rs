//! Number types of the trusted base.
//!
//! `Zw`  : exact elements of Z[omega][1/2], omega = e^{i pi/4}, as (c0 + c1 w + c2 w^2 + c3 w^3) * 2^e
//!         with i128 coefficients (checked: overflow panics with "Zw overflow", which the engine
//!         reports as a harness error / inconclusive, never as a violation).
//! `C64` : complex f64.

use num::complex::Complex64;
use serde::{Deserialize, Serialize};
use std::fmt;

pub trait Ring: Clone + fmt::Debug + PartialEq + Send + Sync + 'static {
    fn zero() -> Self;
    fn one() -> Self;
    fn add(&self, o: &Self) -> Self;
    fn mul(&self, o: &Self) -> Self;
    fn neg(&self) -> Self;
    fn conj(&self) -> Self;
    fn is_zero(&self) -> bool;
    /// e^{i pi n/d}; None if not representable (Zw: d must divide 4)
    fn from_phase(n: i64, d: i64) -> Option<Self>;
    fn sqrt2_pow(p: i32) -> Self;
    fn to_c64(&self) -> Complex64;
    fn exact() -> bool;
    fn from_zw(z: &Zw) -> Self;
    fn from_c64(c: Complex64) -> Option<Self>;
}

#[derive(Clone, Copy, PartialEq, Eq, Hash, Serialize, Deserialize)]
pub struct Zw {
    pub c: [i128; 4],
    pub e: i32,
}

/// x * 2^e without the spurious overflow / flush to zero of `powi` for |e| > 1023
pub fn ldexp(mut x: f64, mut e: i32) -> f64 {
    while e > 1000 {
        x *= 2f64.powi(1000);
        e -= 1000;
    }
    while e < -1000 {
        x *= 2f64.powi(-1000);
        e += 1000;
    }
    x * 2f64.powi(e)
}

fn ovf<T>(x: Option<T>) -> T {
    match x {
        Some(v) => v,
        None => panic!("Zw overflow"),
    }
}

impl Zw {
    pub const ZERO: Zw = Zw { c: [0; 4], e: 0 };
    pub const ONE: Zw = Zw { c: [1, 0, 0, 0], e: 0 };

    pub fn new(c: [i128; 4], e: i32) -> Zw {
        let mut z = Zw { c, e };
        z.canon();
        z
    }

    pub fn int(n: i128) -> Zw {
        Zw::new([n, 0, 0, 0], 0)
    }

    fn canon(&mut self) {
        let or = self.c[0] | self.c[1] | self.c[2] | self.c[3];
        if or == 0 {
            self.e = 0;
            return;
        }
        let tz = or.trailing_zeros();
        if tz > 0 {
            for x in self.c.iter_mut() {
                *x >>= tz;
            }
            self.e += tz as i32;
        }
    }

    /// omega^k
    pub fn omega_pow(k: i64) -> Zw {
        let k = k.rem_euclid(8) as usize;
        let mut c = [0i128; 4];
        if k < 4 {
            c[k] = 1;
        } else {
            c[k - 4] = -1;
        }
        Zw { c, e: 0 }
    }

    pub fn mul_pow2(&self, p: i32) -> Zw {
        if self.is_zero_() {
            return *self;
        }
        Zw {
            c: self.c,
            e: self.e + p,
        }
    }

    fn is_zero_(&self) -> bool {
        self.c == [0; 4]
    }

    /// squared absolute value as an exact element (it lies in Z[sqrt2][1/2])
    pub fn norm_sq(&self) -> Zw {
        Ring::mul(self, &Ring::conj(self))
    }

    /// exact test whether self == other * lambda for some unit... not needed; cross-multiplication
    /// is done by callers.
    pub fn sub(&self, o: &Zw) -> Zw {
        Ring::add(self, &Ring::neg(o))
    }
}

impl fmt::Debug for Zw {
    fn fmt(&self, f: &mut fmt::Formatter<'_>) -> fmt::Result {
        if self.is_zero_() {
            return write!(f, "0");
        }
        write!(
            f,
            "({}{:+}w{:+}w2{:+}w3)*2^{}",
            self.c[0], self.c[1], self.c[2], self.c[3], self.e
        )
    }
}

impl Ring for Zw {
    fn zero() -> Zw {
        Zw::ZERO
    }
    fn one() -> Zw {
        Zw::ONE
    }
    fn add(&self, o: &Zw) -> Zw {
        if self.is_zero_() {
            return *o;
        }
        if o.is_zero_() {
            return *self;
        }
        let (a, b) = if self.e <= o.e { (self, o) } else { (o, self) };
        // a has the smaller exponent; shift b's coefficients left
        let d = (b.e - a.e) as u32;
        let mut c = [0i128; 4];
        for i in 0..4 {
            let bs = if b.c[i] == 0 {
                0
            } else {
                if d >= 126 {
                    panic!("Zw overflow");
                }
                let sh = ovf(b.c[i].checked_shl(d));
                if (sh >> d) != b.c[i] {
                    panic!("Zw overflow");
                }
                sh
            };
            c[i] = ovf(a.c[i].checked_add(bs));
        }
        Zw::new(c, a.e)
    }
    fn mul(&self, o: &Zw) -> Zw {
        if self.is_zero_() || o.is_zero_() {
            return Zw::ZERO;
        }
        let mut c = [0i128; 4];
        for i in 0..4 {
            if self.c[i] == 0 {
                continue;
            }
            for j in 0..4 {
                if o.c[j] == 0 {
                    continue;
                }
                let p = ovf(self.c[i].checked_mul(o.c[j]));
                let k = i + j;
                if k < 4 {
                    c[k] = ovf(c[k].checked_add(p));
                } else {
                    c[k - 4] = ovf(c[k - 4].checked_sub(p));
                }
            }
        }
        Zw::new(c, self.e + o.e)
    }
    fn neg(&self) -> Zw {
        Zw {
            c: [-self.c[0], -self.c[1], -self.c[2], -self.c[3]],
            e: self.e,
        }
    }
    fn conj(&self) -> Zw {
        // conj(w) = w^7 = -w^3, conj(w^2) = -w^2, conj(w^3) = -w
        Zw {
            c: [self.c[0], -self.c[3], -self.c[2], -self.c[1]],
            e: self.e,
        }
    }
    fn is_zero(&self) -> bool {
        self.is_zero_()
    }
    fn from_phase(n: i64, d: i64) -> Option<Zw> {
        if d == 0 {
            return None;
        }
        let (n, d) = if d < 0 { (-n, -d) } else { (n, d) };
        // n/d = k/4  <=> 4n divisible by d
        if (4 * n as i128) % (d as i128) != 0 {
            return None;
        }
        let k = (4 * n as i128) / (d as i128);
        Some(Zw::omega_pow((k.rem_euclid(8)) as i64))
    }
    fn sqrt2_pow(p: i32) -> Zw {
        // sqrt2 = w - w^3 ; sqrt2^(2k) = 2^k ; sqrt2^(2k+1) = (w - w^3) 2^k
        if p.rem_euclid(2) == 0 {
            Zw::new([1, 0, 0, 0], p.div_euclid(2))
        } else {
            Zw::new([0, 1, 0, -1], p.div_euclid(2))
        }
    }
    fn to_c64(&self) -> Complex64 {
        let s = std::f64::consts::FRAC_1_SQRT_2;
        let c: Vec<f64> = self.c.iter().map(|&x| x as f64).collect();
        let re = c[0] + (c[1] - c[3]) * s;
        let im = c[2] + (c[1] + c[3]) * s;
        Complex64::new(ldexp(re, self.e), ldexp(im, self.e))
    }
    fn exact() -> bool {
        true
    }
    fn from_zw(z: &Zw) -> Zw {
        *z
    }
    fn from_c64(_c: Complex64) -> Option<Zw> {
        None
    }
}

#[derive(Clone, Copy, PartialEq, Debug)]
pub struct C64(pub Complex64);

impl Ring for C64 {
    fn zero() -> C64 {
        C64(Complex64::new(0.0, 0.0))
    }
    fn one() -> C64 {
        C64(Complex64::new(1.0, 0.0))
    }
    fn add(&self, o: &C64) -> C64 {
        C64(self.0 + o.0)
    }
    fn mul(&self, o: &C64) -> C64 {
        C64(self.0 * o.0)
    }
    fn neg(&self) -> C64 {
        C64(-self.0)
    }
    fn conj(&self) -> C64 {
        C64(self.0.conj())
    }
    fn is_zero(&self) -> bool {
        self.0.re == 0.0 && self.0.im == 0.0
    }
    fn from_phase(n: i64, d: i64) -> Option<C64> {
        if d == 0 {
            return None;
        }
        // reduce mod 2 exactly first to keep accuracy
        let (n, d) = if d < 0 { (-(n as i128), -(d as i128)) } else { (n as i128, d as i128) };
        let n = n.rem_euclid(2 * d);
        // exact values at multiples of 1/4
        if (4 * n) % d == 0 {
            let k = ((4 * n) / d) as i64;
            return Some(C64(Zw::omega_pow(k).to_c64()));
        }
        let x = (n as f64) / (d as f64) * std::f64::consts::PI;
        Some(C64(Complex64::new(x.cos(), x.sin())))
    }
    fn sqrt2_pow(p: i32) -> C64 {
        let base = 2f64.powi(p.div_euclid(2));
        if p.rem_euclid(2) == 0 {
            C64(Complex64::new(base, 0.0))
        } else {
            C64(Complex64::new(base * std::f64::consts::SQRT_2, 0.0))
        }
    }
    fn to_c64(&self) -> Complex64 {
        self.0
    }
    fn exact() -> bool {
        false
    }
    fn from_zw(z: &Zw) -> C64 {
        C64(z.to_c64())
    }
    fn from_c64(c: Complex64) -> Option<C64> {
        Some(C64(c))
    }
}

/// Exact comparison of two exact tensors / tolerance comparison of float tensors.
/// Returns the first differing index.
pub fn tensors_equal_exact(a: &[Zw], b: &[Zw]) -> Result<(), String> {
    if a.len() != b.len() {
        return Err(format!("tensor sizes differ: {} vs {}", a.len(), b.len()));
    }
    for i in 0..a.len() {
        if a[i] != b[i] {
            return Err(format!(
                "entry {i} differs: {:?} vs {:?} (≈ {} vs {})",
                a[i],
                b[i],
                a[i].to_c64(),
                b[i].to_c64()
            ));
        }
    }
    Ok(())
}

pub fn max_abs(a: &[C64]) -> f64 {
    a.iter().map(|x| x.0.norm()).fold(0.0, f64::max)
}

/// |a_i - b_i| <= rel * max|entries| + abs
pub fn tensors_close(a: &[C64], b: &[C64], rel: f64, abs: f64) -> Result<(), String> {
    if a.len() != b.len() {
        return Err(format!("tensor sizes differ: {} vs {}", a.len(), b.len()));
    }
    let m = max_abs(a).max(max_abs(b));
    if !m.is_finite() {
        return Err("non-finite tensor entry".to_string());
    }
    let tol = rel * m + abs;
    for i in 0..a.len() {
        let d = (a[i].0 - b[i].0).norm();
        if !(d <= tol) {
            return Err(format!(
                "entry {i} differs: {} vs {} (|diff|={d:.3e}, tol={tol:.3e})",
                a[i].0, b[i].0
            ));
        }
    }
    Ok(())
}

/// a ∝ b exactly?  (both zero counts as proportional only if both are all-zero)
/// Returns Ok(true) iff there is a non-zero lambda with a = lambda b.
pub fn proportional_exact(a: &[Zw], b: &[Zw]) -> bool {
    if a.len() != b.len() {
        return false;
    }
    let ia = a.iter().position(|x| !x.is_zero());
    let ib = b.iter().position(|x| !x.is_zero());
    match (ia, ib) {
        (None, None) => true,
        (Some(i), Some(j)) => {
            if i != j {
                return false;
            }
            // a[k] * b[i] == b[k] * a[i] for all k
            let (ai, bi) = (a[i], b[i]);
            (0..a.len()).all(|k| a[k].mul(&bi) == b[k].mul(&ai))
        }
        _ => false,
    }
}

/// a ∝ b within relative tolerance (float); both must be non-zero (or both zero)
pub fn proportional_close(a: &[C64], b: &[C64], rel: f64) -> bool {
    if a.len() != b.len() {
        return false;
    }
    let ma = max_abs(a);
    let mb = max_abs(b);
    if ma == 0.0 || mb == 0.0 {
        return ma == mb;
    }
    // pivot: index of the largest entry of a
    let (i, _) = a
        .iter()
        .enumerate()
        .max_by(|x, y| x.1 .0.norm().partial_cmp(&y.1 .0.norm()).unwrap())
        .unwrap();
    if b[i].0.norm() < 1e-6 * mb {
        return false;
    }
    let lam = a[i].0 / b[i].0;
    let tol = rel * ma;
    (0..a.len()).all(|k| (a[k].0 - lam * b[k].0).norm() <= tol)
}
