//! Independent evaluators of ZX-diagrams.
//!
//! Semantics (textbook): Z(a) with n legs = |0..0><..| + e^{ia}|1..1>; X(a) = Z(a) with a normalised
//! Hadamard on every leg, i.e. X(a)[l1..ln] = 2^{-n/2} (1 + e^{ia} (-1)^{l1+..+ln}); a Hadamard edge
//! is the matrix (1/sqrt2)[[1,1],[1,-1]]; a boundary vertex is an open index; the result is
//! multiplied by the stored scalar.  Index order: inputs then outputs, first index most significant.
//!
//! (A) `eval_literal`: sums over one bit per plain edge and two bits per Hadamard edge, multiplying
//!     the spider tensors literally.  Exponential in the number of edges; used to validate (B).
//! (B) `eval`: bucket elimination over a factor graph.

use super::diag::{scalar_to_ring, Diag, VK};
use super::ring::Ring;

#[derive(Clone, Debug, PartialEq)]
pub struct Tens<R> {
    pub n_in: usize,
    pub n_out: usize,
    pub data: Vec<R>,
    /// magnitude of the stored scalar that went into the evaluation (1.0 for circuits); used as
    /// the absolute noise floor of float comparisons
    pub scale: f64,
}

impl<R: Ring> Tens<R> {
    pub fn rank(&self) -> usize {
        self.n_in + self.n_out
    }
}

#[derive(Debug, Clone, PartialEq)]
pub enum EvalErr {
    /// not a well-formed diagram
    Malformed(String),
    /// a phase or the scalar is not representable in the ring
    NotRepresentable,
    /// treewidth / size beyond the evaluator's cap
    TooBig,
}

pub const MAX_TABLE_BITS: usize = 22;

fn phase_elem<R: Ring>(p: (i64, i64)) -> Result<R, EvalErr> {
    R::from_phase(p.0, p.1).ok_or(EvalErr::NotRepresentable)
}

// ---------------------------------------------------------------------------------------------
// (A) literal evaluator

pub fn eval_literal<R: Ring>(d: &Diag) -> Result<Tens<R>, EvalErr> {
    d.check_wellformed().map_err(EvalErr::Malformed)?;
    if d.has_vars() {
        return Err(EvalErr::Malformed("diagram carries variables".into()));
    }
    let scalar: R = scalar_to_ring(&d.scalar).ok_or(EvalErr::NotRepresentable)?;
    // leg variables: edge k has variables (a_k, b_k) for its two ends; for plain edges b_k = a_k
    let ne = d.edges.len();
    let mut nvars = 0usize;
    let mut leg_var: Vec<(usize, usize)> = vec![]; // per edge: var at end u, var at end v
    for &(_, _, h) in &d.edges {
        if h {
            leg_var.push((nvars, nvars + 1));
            nvars += 2;
        } else {
            leg_var.push((nvars, nvars));
            nvars += 1;
        }
    }
    if nvars > 24 {
        return Err(EvalErr::TooBig);
    }
    // legs of every vertex
    let nv = d.verts.len();
    let mut legs: Vec<Vec<usize>> = vec![vec![]; nv];
    for (k, &(u, v, _)) in d.edges.iter().enumerate() {
        legs[u].push(leg_var[k].0);
        legs[v].push(leg_var[k].1);
    }
    let phases: Vec<R> = d
        .verts
        .iter()
        .map(|v| phase_elem::<R>(v.phase))
        .collect::<Result<_, _>>()?;
    let bnd: Vec<usize> = d.inputs.iter().chain(d.outputs.iter()).copied().collect();
    let rank = bnd.len();
    let mut out = vec![R::zero(); 1usize << rank];
    let isq = R::sqrt2_pow(-1);
    let one = R::one();
    'assign: for a in 0u64..(1u64 << nvars) {
        let bit = |x: usize| ((a >> x) & 1) as usize;
        let mut term = one.clone();
        // Hadamard edges
        for (k, &(_, _, h)) in d.edges.iter().enumerate() {
            if h {
                term = term.mul(&isq);
                if bit(leg_var[k].0) == 1 && bit(leg_var[k].1) == 1 {
                    term = term.neg();
                }
            }
        }
        for (i, v) in d.verts.iter().enumerate() {
            match v.kind {
                VK::B => {}
                VK::Z => {
                    if legs[i].is_empty() {
                        term = term.mul(&one.add(&phases[i]));
                    } else {
                        let b0 = bit(legs[i][0]);
                        if legs[i].iter().any(|&l| bit(l) != b0) {
                            continue 'assign;
                        }
                        if b0 == 1 {
                            term = term.mul(&phases[i]);
                        }
                    }
                }
                VK::X => {
                    let par = legs[i].iter().map(|&l| bit(l)).sum::<usize>() % 2;
                    let mut f = if par == 0 {
                        one.add(&phases[i])
                    } else {
                        one.add(&phases[i].neg())
                    };
                    f = f.mul(&R::sqrt2_pow(-(legs[i].len() as i32)));
                    if f.is_zero() {
                        continue 'assign;
                    }
                    term = term.mul(&f);
                }
            }
        }
        let mut idx = 0usize;
        for &b in &bnd {
            idx = (idx << 1) | bit(legs[b][0]);
        }
        out[idx] = out[idx].add(&term);
    }
    let _ = ne;
    for x in out.iter_mut() {
        *x = x.mul(&scalar);
    }
    Ok(Tens {
        n_in: d.inputs.len(),
        n_out: d.outputs.len(),
        data: out,
        scale: d.scalar.to_c64().norm(),
    })
}

// ---------------------------------------------------------------------------------------------
// (B) bucket elimination

struct Factor<R> {
    vars: Vec<usize>, // sorted, distinct
    table: Vec<R>,    // bit j of the index <-> vars[j]
}

fn find(uf: &mut Vec<usize>, x: usize) -> usize {
    let mut r = x;
    while uf[r] != r {
        r = uf[r];
    }
    let mut y = x;
    while uf[y] != r {
        let n = uf[y];
        uf[y] = r;
        y = n;
    }
    r
}

fn multiply<R: Ring>(fs: &[Factor<R>]) -> Result<Factor<R>, EvalErr> {
    let mut vars: Vec<usize> = fs.iter().flat_map(|f| f.vars.iter().copied()).collect();
    vars.sort();
    vars.dedup();
    if vars.len() > MAX_TABLE_BITS {
        return Err(EvalErr::TooBig);
    }
    let maps: Vec<Vec<usize>> = fs
        .iter()
        .map(|f| {
            f.vars
                .iter()
                .map(|v| vars.binary_search(v).unwrap())
                .collect()
        })
        .collect();
    let mut table = Vec::with_capacity(1 << vars.len());
    for idx in 0usize..(1usize << vars.len()) {
        let mut acc: Option<R> = None;
        for (f, m) in fs.iter().zip(maps.iter()) {
            let mut j = 0usize;
            for (b, &pos) in m.iter().enumerate() {
                j |= ((idx >> pos) & 1) << b;
            }
            let e = &f.table[j];
            acc = Some(match acc {
                None => e.clone(),
                Some(a) => {
                    if a.is_zero() {
                        a
                    } else {
                        a.mul(e)
                    }
                }
            });
        }
        table.push(acc.unwrap_or_else(R::one));
    }
    Ok(Factor { vars, table })
}

fn sum_out<R: Ring>(f: Factor<R>, v: usize) -> Factor<R> {
    let pos = f.vars.iter().position(|&x| x == v).unwrap();
    let mut vars = f.vars.clone();
    vars.remove(pos);
    let n = vars.len();
    let mut table = Vec::with_capacity(1 << n);
    let low = (1usize << pos) - 1;
    for idx in 0usize..(1usize << n) {
        let i0 = (idx & low) | ((idx & !low) << 1);
        let i1 = i0 | (1 << pos);
        table.push(f.table[i0].add(&f.table[i1]));
    }
    Factor { vars, table }
}

pub fn eval<R: Ring>(d: &Diag) -> Result<Tens<R>, EvalErr> {
    d.check_wellformed().map_err(EvalErr::Malformed)?;
    if d.has_vars() {
        return Err(EvalErr::Malformed("diagram carries variables".into()));
    }
    let scalar: R = scalar_to_ring(&d.scalar).ok_or(EvalErr::NotRepresentable)?;
    let nv = d.verts.len();
    // one bit per vertex; an X spider is a Z spider with a Hadamard on every leg, so the effective
    // type of an edge is its own type XOR (#X ends)
    let mut uf: Vec<usize> = (0..nv).collect();
    let mut hedges: Vec<(usize, usize)> = vec![];
    for &(u, v, h) in &d.edges {
        let mut eh = h;
        if d.verts[u].kind == VK::X {
            eh = !eh;
        }
        if d.verts[v].kind == VK::X {
            eh = !eh;
        }
        if eh {
            hedges.push((u, v));
        } else {
            let (a, b) = (find(&mut uf, u), find(&mut uf, v));
            if a != b {
                uf[a] = b;
            }
        }
    }
    let cls: Vec<usize> = (0..nv).map(|i| find(&mut uf, i)).collect();
    // factors
    let mut factors: Vec<Factor<R>> = vec![];
    let mut constant = scalar;
    // unary phase factors per class
    let mut phase_acc: std::collections::BTreeMap<usize, R> = Default::default();
    let mut has_spider: std::collections::BTreeSet<usize> = Default::default();
    for (i, v) in d.verts.iter().enumerate() {
        if v.kind == VK::B {
            continue;
        }
        has_spider.insert(cls[i]);
        let p = phase_elem::<R>(v.phase)?;
        let e = phase_acc.entry(cls[i]).or_insert_with(R::one);
        *e = e.mul(&p);
    }
    for (c, p) in phase_acc {
        factors.push(Factor {
            vars: vec![c],
            table: vec![R::one(), p],
        });
    }
    let isq = R::sqrt2_pow(-1);
    for &(u, v) in &hedges {
        let (a, b) = (cls[u], cls[v]);
        if a == b {
            factors.push(Factor {
                vars: vec![a],
                table: vec![isq.clone(), isq.neg()],
            });
        } else {
            factors.push(Factor {
                vars: vec![a.min(b), a.max(b)],
                table: vec![isq.clone(), isq.clone(), isq.clone(), isq.neg()],
            });
        }
    }
    let bnd: Vec<usize> = d.inputs.iter().chain(d.outputs.iter()).copied().collect();
    let open: std::collections::BTreeSet<usize> = bnd.iter().map(|&b| cls[b]).collect();
    // variables to eliminate
    let mut elim: std::collections::BTreeSet<usize> = cls
        .iter()
        .copied()
        .filter(|c| !open.contains(c))
        .collect();
    while !elim.is_empty() {
        // min-degree: variable with the fewest distinct neighbours
        let mut best: Option<(usize, usize)> = None;
        for &v in &elim {
            let mut nb: std::collections::BTreeSet<usize> = Default::default();
            for f in &factors {
                if f.vars.contains(&v) {
                    nb.extend(f.vars.iter().copied());
                }
            }
            let deg = nb.len();
            if best.map(|b| deg < b.1).unwrap_or(true) {
                best = Some((v, deg));
                if deg <= 2 {
                    break;
                }
            }
        }
        let (v, _) = best.unwrap();
        elim.remove(&v);
        let (with, without): (Vec<Factor<R>>, Vec<Factor<R>>) =
            factors.into_iter().partition(|f| f.vars.contains(&v));
        factors = without;
        if with.is_empty() {
            // a variable with no factor: a class without spiders cannot be closed (it would
            // contain a boundary), so this is a spider class whose phase factor exists; unreachable
            constant = constant.mul(&R::one().add(&R::one()));
            continue;
        }
        let prod = multiply(&with)?;
        let f = sum_out(prod, v);
        if f.vars.is_empty() {
            constant = constant.mul(&f.table[0]);
        } else {
            factors.push(f);
        }
    }
    // remaining factors range over open variables only
    let rest = if factors.is_empty() {
        Factor {
            vars: vec![],
            table: vec![R::one()],
        }
    } else {
        multiply(&factors)?
    };
    let rank = bnd.len();
    if rank > MAX_TABLE_BITS {
        return Err(EvalErr::TooBig);
    }
    let mut out = vec![R::zero(); 1usize << rank];
    let bcls: Vec<usize> = bnd.iter().map(|&b| cls[b]).collect();
    'idx: for idx in 0usize..(1usize << rank) {
        // bit of boundary k (k-th in inputs++outputs) is bit (rank-1-k) of idx
        let mut val: std::collections::BTreeMap<usize, usize> = Default::default();
        for k in 0..rank {
            let b = (idx >> (rank - 1 - k)) & 1;
            match val.get(&bcls[k]) {
                Some(&x) if x != b => continue 'idx,
                _ => {
                    val.insert(bcls[k], b);
                }
            }
        }
        let mut j = 0usize;
        for (bpos, v) in rest.vars.iter().enumerate() {
            j |= val[v] << bpos;
        }
        out[idx] = rest.table[j].mul(&constant);
    }
    let _ = has_spider;
    Ok(Tens {
        n_in: d.inputs.len(),
        n_out: d.outputs.len(),
        data: out,
        scale: d.scalar.to_c64().norm(),
    })
}
