pub mod csim;
pub mod diag;
pub mod ring;
pub mod zxeval;
