//! Plain model of a ZX-diagram, reading it out of a quizx graph (snapshot) and building it into a
//! quizx graph of either backend.

use super::ring::{Ring, Zw};
use num::complex::Complex64;
use num::Rational64;
use quizx::graph::{EType, GraphLike, VData, VType, V};
use quizx::params::Parity;
use quizx::phase::Phase;
use quizx::scalar::Scalar4;
use serde::{Deserialize, Serialize};
use std::collections::{BTreeMap, BTreeSet};

#[derive(Clone, Copy, Debug, PartialEq, Eq, Hash, Serialize, Deserialize, PartialOrd, Ord)]
pub enum VK {
    B,
    Z,
    X,
}

#[derive(Clone, Debug, PartialEq, Eq, Hash, Serialize, Deserialize)]
pub struct MVert {
    pub kind: VK,
    /// phase n/d in half-turns (units of pi)
    pub phase: (i64, i64),
    /// XOR of boolean variables (sorted, distinct); the quizx "constant" bit of a parity
    pub vars: Vec<u32>,
    pub vars_const: bool,
}

impl MVert {
    pub fn new(kind: VK, phase: (i64, i64)) -> MVert {
        MVert {
            kind,
            phase,
            vars: vec![],
            vars_const: false,
        }
    }
}

#[derive(Clone, Debug, PartialEq, Serialize, Deserialize)]
pub enum MScalar {
    Exact(Zw),
    Float(f64, f64),
}

impl MScalar {
    pub fn one() -> MScalar {
        MScalar::Exact(Zw::ONE)
    }
    pub fn to_c64(&self) -> Complex64 {
        match self {
            MScalar::Exact(z) => z.to_c64(),
            MScalar::Float(r, i) => Complex64::new(*r, *i),
        }
    }
    pub fn is_exact(&self) -> bool {
        matches!(self, MScalar::Exact(_))
    }
}

#[derive(Clone, Debug, PartialEq, Serialize, Deserialize)]
pub struct Diag {
    pub verts: Vec<MVert>,
    /// (u, v, hadamard?) with u < v
    pub edges: Vec<(usize, usize, bool)>,
    pub inputs: Vec<usize>,
    pub outputs: Vec<usize>,
    pub scalar: MScalar,
}

impl Diag {
    pub fn empty() -> Diag {
        Diag {
            verts: vec![],
            edges: vec![],
            inputs: vec![],
            outputs: vec![],
            scalar: MScalar::one(),
        }
    }

    pub fn degree(&self, v: usize) -> usize {
        self.edges.iter().filter(|e| e.0 == v || e.1 == v).count()
    }

    pub fn neighbors(&self, v: usize) -> Vec<(usize, bool)> {
        self.edges
            .iter()
            .filter_map(|&(a, b, h)| {
                if a == v {
                    Some((b, h))
                } else if b == v {
                    Some((a, h))
                } else {
                    None
                }
            })
            .collect()
    }

    pub fn add_vert(&mut self, kind: VK, phase: (i64, i64)) -> usize {
        self.verts.push(MVert::new(kind, phase));
        self.verts.len() - 1
    }

    pub fn add_edge(&mut self, a: usize, b: usize, h: bool) {
        let (a, b) = if a < b { (a, b) } else { (b, a) };
        self.edges.push((a, b, h));
    }

    pub fn has_edge(&self, a: usize, b: usize) -> bool {
        let (a, b) = if a < b { (a, b) } else { (b, a) };
        self.edges.iter().any(|e| e.0 == a && e.1 == b)
    }

    /// The well-formedness conditions of the property statements: simple graph, every boundary of
    /// degree exactly one, phase 0, no variables, listed exactly once in inputs ++ outputs.
    pub fn check_wellformed(&self) -> Result<(), String> {
        let n = self.verts.len();
        let mut seen = BTreeSet::new();
        for &(a, b, _) in &self.edges {
            if a >= n || b >= n {
                return Err(format!("edge ({a},{b}) names a missing vertex"));
            }
            if a == b {
                return Err(format!("self-loop at {a}"));
            }
            if !seen.insert((a.min(b), a.max(b))) {
                return Err(format!("parallel edge ({a},{b})"));
            }
        }
        let mut count: BTreeMap<usize, usize> = BTreeMap::new();
        for &b in self.inputs.iter().chain(self.outputs.iter()) {
            if b >= n {
                return Err(format!("input/output {b} is not a vertex"));
            }
            if self.verts[b].kind != VK::B {
                return Err(format!("input/output {b} is not a boundary vertex"));
            }
            *count.entry(b).or_default() += 1;
        }
        for (i, v) in self.verts.iter().enumerate() {
            if v.kind == VK::B {
                if count.get(&i).copied().unwrap_or(0) != 1 {
                    return Err(format!(
                        "boundary {i} is listed {} times in inputs/outputs",
                        count.get(&i).copied().unwrap_or(0)
                    ));
                }
                if self.degree(i) != 1 {
                    return Err(format!("boundary {i} has degree {}", self.degree(i)));
                }
                if v.phase.0 != 0 {
                    return Err(format!("boundary {i} carries a phase"));
                }
                if !v.vars.is_empty() || v.vars_const {
                    return Err(format!("boundary {i} carries variables"));
                }
            }
            if v.phase.1 <= 0 {
                return Err(format!("vertex {i} has a non-positive phase denominator"));
            }
        }
        Ok(())
    }

    pub fn all_phases_quarter(&self) -> bool {
        self.verts.iter().all(|v| 4 % v.phase.1 == 0)
    }

    pub fn has_vars(&self) -> bool {
        self.verts.iter().any(|v| !v.vars.is_empty() || v.vars_const)
    }

    /// Substitute a variable assignment: add pi where the parity is odd, drop the variables.
    pub fn instantiate(&self, sigma: &dyn Fn(u32) -> bool) -> Diag {
        let mut d = self.clone();
        for v in d.verts.iter_mut() {
            let mut odd = v.vars_const;
            for &x in &v.vars {
                odd ^= sigma(x);
            }
            if odd {
                v.phase = norm_phase((v.phase.0 + v.phase.1, v.phase.1));
            }
            v.vars.clear();
            v.vars_const = false;
        }
        d
    }

    pub fn num_spiders(&self) -> usize {
        self.verts.iter().filter(|v| v.kind != VK::B).count()
    }
}

pub fn gcd(a: i64, b: i64) -> i64 {
    let (mut a, mut b) = (a.abs(), b.abs());
    while b != 0 {
        let t = a % b;
        a = b;
        b = t;
    }
    a
}

/// reduce and bring into (-1,1]
pub fn norm_phase(p: (i64, i64)) -> (i64, i64) {
    let (mut n, mut d) = p;
    if d == 0 {
        // no generator produces it; a total function all the same (raw values always map to a
        // well-formed case)
        return (0, 1);
    }
    if d < 0 {
        n = -n;
        d = -d;
    }
    let g = gcd(n, d).max(1);
    n /= g;
    d /= g;
    n = n.rem_euclid(2 * d);
    if n > d {
        n -= 2 * d;
    }
    (n, d)
}

pub fn to_qphase(p: (i64, i64)) -> Phase {
    Phase::new(Rational64::new(p.0, p.1))
}

pub fn from_qphase(p: Phase) -> (i64, i64) {
    let r = p.to_rational();
    (*r.numer(), *r.denom())
}

// ---------------------------------------------------------------------------------------------
// reading scalars

/// Read a quizx scalar through the raw-parts hook.
pub fn read_scalar(s: &Scalar4) -> MScalar {
    let cs = s.verif_coeffs();
    let parts: Vec<(bool, bool, i32, u64)> = cs.iter().map(|c| c.verif_raw_parts()).collect();
    let approx = parts.iter().any(|p| p.1);
    if !approx {
        if let Some(z) = parts_to_zw(&parts) {
            return MScalar::Exact(z);
        }
    }
    let c = parts_to_c64(&parts);
    MScalar::Float(c.re, c.im)
}

/// `read_scalar(s / 2^shift)`: keeps scalars of extreme magnitude inside f64's normal range
pub fn read_scalar_shifted(s: &Scalar4, shift: i32) -> MScalar {
    let cs = s.verif_coeffs();
    let parts: Vec<(bool, bool, i32, u64)> = cs
        .iter()
        .map(|c| {
            let p = c.verif_raw_parts();
            (p.0, p.1, if p.3 == 0 { p.2 } else { p.2 - shift }, p.3)
        })
        .collect();
    let approx = parts.iter().any(|p| p.1);
    if !approx {
        if let Some(z) = parts_to_zw(&parts) {
            return MScalar::Exact(z);
        }
    }
    let c = parts_to_c64(&parts);
    MScalar::Float(c.re, c.im)
}

pub fn scalar_is_approx(s: &Scalar4) -> bool {
    s.verif_coeffs().iter().any(|c| c.verif_raw_parts().1)
}

fn parts_to_zw(parts: &[(bool, bool, i32, u64)]) -> Option<Zw> {
    // strip trailing zeros per coefficient, then align to the minimal exponent
    let mut red: Vec<(i128, i32)> = vec![];
    for &(sign, _, exp, m) in parts {
        if m == 0 {
            red.push((0, 0));
        } else {
            let tz = m.trailing_zeros();
            let v = (m >> tz) as i128;
            red.push((if sign { -v } else { v }, exp + tz as i32));
        }
    }
    let emin = red.iter().filter(|x| x.0 != 0).map(|x| x.1).min();
    let Some(emin) = emin else {
        return Some(Zw::ZERO);
    };
    let mut c = [0i128; 4];
    for i in 0..4 {
        if red[i].0 != 0 {
            let sh = (red[i].1 - emin) as u32;
            if sh > 60 {
                return None;
            }
            c[i] = red[i].0.checked_shl(sh)?;
            if (c[i] >> sh) != red[i].0 {
                return None;
            }
        }
    }
    Some(Zw::new(c, emin))
}

pub fn dyadic_parts_to_f64(sign: bool, exp: i32, m: u64) -> f64 {
    if m == 0 {
        return 0.0;
    }
    // m * 2^exp computed without intermediate overflow/underflow
    let mf = m as f64; // in [2^63, 2^64) when normalised
    let v = libm_ldexp(mf, exp);
    if sign {
        -v
    } else {
        v
    }
}

/// x * 2^e with correct handling of large |e|
pub fn libm_ldexp(x: f64, e: i32) -> f64 {
    let mut x = x;
    let mut e = e;
    while e > 1000 {
        x *= 2f64.powi(1000);
        e -= 1000;
    }
    while e < -1000 {
        x *= 2f64.powi(-1000);
        e += 1000;
    }
    x * 2f64.powi(e)
}

fn parts_to_c64(parts: &[(bool, bool, i32, u64)]) -> Complex64 {
    let c: Vec<f64> = parts
        .iter()
        .map(|&(s, _, e, m)| dyadic_parts_to_f64(s, e, m))
        .collect();
    let r = std::f64::consts::FRAC_1_SQRT_2;
    Complex64::new(c[0] + (c[1] - c[3]) * r, c[2] + (c[1] + c[3]) * r)
}

pub fn scalar_to_ring<R: Ring>(s: &MScalar) -> Option<R> {
    match s {
        MScalar::Exact(z) => Some(R::from_zw(z)),
        MScalar::Float(re, im) => R::from_c64(Complex64::new(*re, *im)),
    }
}

// ---------------------------------------------------------------------------------------------
// snapshot: quizx graph -> model

pub struct Snapshot {
    pub diag: Diag,
    /// model index -> quizx vertex id
    pub ids: Vec<V>,
}

pub fn snapshot<G: GraphLike>(g: &G) -> Result<Snapshot, String> {
    let mut ids: Vec<V> = g.vertices().collect();
    ids.sort();
    let mut index: BTreeMap<V, usize> = BTreeMap::new();
    for (i, &v) in ids.iter().enumerate() {
        if index.insert(v, i).is_some() {
            return Err(format!("vertex {v} enumerated twice"));
        }
    }
    let mut verts = vec![];
    for &v in &ids {
        let d = g.vertex_data(v);
        let kind = match d.ty {
            VType::B => VK::B,
            VType::Z => VK::Z,
            VType::X => VK::X,
            t => return Err(format!("unsupported vertex type {t:?} at {v}")),
        };
        let vars: Vec<u32> = d.vars.iter().collect();
        // the constant bit of the parity is only observable through comparison
        let vars_const = d.vars != Parity::new(vars.clone(), false);
        verts.push(MVert {
            kind,
            phase: from_qphase(d.phase),
            vars,
            vars_const,
        });
    }
    let mut edges = vec![];
    let mut es: Vec<(V, V, EType)> = g.edges().collect();
    es.sort();
    for (s, t, et) in es {
        let h = match et {
            EType::N => false,
            EType::H => true,
            e => return Err(format!("unsupported edge type {e:?}")),
        };
        let (Some(&a), Some(&b)) = (index.get(&s), index.get(&t)) else {
            return Err(format!("edge ({s},{t}) names a missing vertex"));
        };
        edges.push((a.min(b), a.max(b), h));
    }
    let mut inputs = vec![];
    for &v in g.inputs() {
        inputs.push(
            *index
                .get(&v)
                .ok_or_else(|| format!("input {v} is not a vertex of the graph"))?,
        );
    }
    let mut outputs = vec![];
    for &v in g.outputs() {
        outputs.push(
            *index
                .get(&v)
                .ok_or_else(|| format!("output {v} is not a vertex of the graph"))?,
        );
    }
    Ok(Snapshot {
        diag: Diag {
            verts,
            edges,
            inputs,
            outputs,
            scalar: read_scalar(g.scalar()),
        },
        ids,
    })
}

// ---------------------------------------------------------------------------------------------
// building a model diagram into a quizx graph

#[derive(Clone, Debug, Default, PartialEq, Serialize, Deserialize)]
pub struct IdPlan {
    /// sort keys deciding the insertion order of the model vertices (missing = index order)
    pub order: Vec<u16>,
    /// gap code per model vertex: the number of dummy vertices inserted before it and removed
    /// afterwards, leaving holes (vector backend) / unused names (hash backend).  Codes 0..=2 are
    /// literal; 3.. select long strides (see [`gap_count`]) so that vertex names lie far apart
    /// or coincide modulo a power of two
    pub gaps: Vec<u8>,
    /// 0 = edges inserted in model order; otherwise a key that shuffles the insertion order and
    /// the orientation of every edge (adjacency-list order is not part of any contract)
    #[serde(default)]
    pub edge_order: u64,
}

pub fn gap_count(code: u8) -> usize {
    match code {
        0..=2 => code as usize,
        3 => 63,
        4 => 31,
        5 => 127,
        6 => 255,
        7 => 64,
        8 => 62,
        _ => 2,
    }
}

pub fn mscalar_to_q(s: &MScalar) -> Scalar4 {
    match s {
        MScalar::Exact(z) => {
            // coefficients must fit i64 for Scalar4::new
            let c: Vec<i64> = z.c.iter().map(|&x| x as i64).collect();
            for i in 0..4 {
                assert!(c[i] as i128 == z.c[i], "scalar coefficient does not fit i64");
            }
            Scalar4::new([c[0], c[1], c[2], c[3]], z.e)
        }
        MScalar::Float(re, im) => Scalar4::complex(*re, *im),
    }
}

pub fn mvert_data(v: &MVert) -> VData {
    VData {
        ty: match v.kind {
            VK::B => VType::B,
            VK::Z => VType::Z,
            VK::X => VType::X,
        },
        phase: to_qphase(v.phase),
        vars: Parity::new(v.vars.clone(), v.vars_const),
        qubit: 0.0,
        row: 0.0,
    }
}

/// Build `d` into a fresh graph of backend `G`.  Returns the graph and the id of every model vertex.
pub fn build<G: GraphLike>(d: &Diag, plan: &IdPlan) -> (G, Vec<V>) {
    let n = d.verts.len();
    let mut order: Vec<usize> = (0..n).collect();
    order.sort_by_key(|&i| (plan.order.get(i).copied().unwrap_or(i as u16), i));
    let mut g = G::new();
    let mut ids = vec![usize::MAX; n];
    let mut dummies = vec![];
    // a uniform long-stride plan extends to vertices beyond its length (planted patterns)
    let fill = match plan.gaps.first() {
        Some(&c) if c >= 3 && plan.gaps.iter().all(|&x| x == c) => c,
        _ => 0,
    };
    for &i in &order {
        let gap = gap_count(plan.gaps.get(i).copied().unwrap_or(fill));
        for _ in 0..gap {
            dummies.push(g.add_vertex(VType::Z));
        }
        ids[i] = g.add_vertex_with_data(mvert_data(&d.verts[i]));
    }
    for v in dummies {
        g.remove_vertex(v);
    }
    let mut eorder: Vec<usize> = (0..d.edges.len()).collect();
    if plan.edge_order != 0 {
        eorder.sort_by_key(|&i| crate::engine::mix(plan.edge_order, i as u64));
    }
    for i in eorder {
        let (a, b, h) = d.edges[i];
        let et = if h { EType::H } else { EType::N };
        if plan.edge_order != 0 && crate::engine::mix(plan.edge_order ^ 0xe0, i as u64) & 1 == 1 {
            g.add_edge_with_type(ids[b], ids[a], et);
        } else {
            g.add_edge_with_type(ids[a], ids[b], et);
        }
    }
    // a plan with a shuffled edge order may also reach the diagram through some editing
    // history that leaves it unchanged: a refused insertion of a taken name, a scaffold edge
    // added and removed, an edge type toggled twice, a scaffold vertex added and removed
    if plan.edge_order != 0 && plan.edge_order & 4 == 4 && n > 0 {
        let _ = g.add_named_vertex_with_data(ids[0], mvert_data(&d.verts[0]));
        if let Some(&(a, b, _)) = d.edges.first() {
            g.toggle_edge_type(ids[a], ids[b]);
            g.toggle_edge_type(ids[b], ids[a]);
        }
        let free = (0..n).flat_map(|a| ((a + 1)..n).map(move |b| (a, b))).find(|&(a, b)| !d.has_edge(a, b));
        if let Some((a, b)) = free {
            g.add_edge_with_type(ids[a], ids[b], EType::H);
            g.remove_edge(ids[b], ids[a]);
        }
        let t = g.add_vertex(VType::X);
        g.add_edge_with_type(t, ids[n - 1], EType::N);
        g.remove_vertex(t);
    }
    g.set_inputs(d.inputs.iter().map(|&i| ids[i]).collect());
    g.set_outputs(d.outputs.iter().map(|&i| ids[i]).collect());
    *g.scalar_mut() = mscalar_to_q(&d.scalar);
    (g, ids)
}
