pub mod engine;
pub mod fuzzmut;
pub mod gen;
pub mod oracle;
pub mod props;
pub mod selftest;
