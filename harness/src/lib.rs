pub mod engine;
pub mod gen;
pub mod oracle;
pub mod props;
pub mod selftest;
