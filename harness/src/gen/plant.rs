//! Planting of matchable neighbourhoods into a host diagram, so that every matcher / replacement
//! fires often.  All plants are attached to existing Z spiders of the host by Hadamard edges.

use super::diag::{phase_strategy, Palette};
use super::idx;
use crate::oracle::diag::{norm_phase, Diag, VK};
use proptest::prelude::*;
use serde::{Deserialize, Serialize};

#[derive(Clone, Debug, PartialEq, Serialize, Deserialize)]
pub enum Spoiler {
    None,
    /// a boundary (output) on the first hub
    HubBoundary,
    /// first hub joined to its first support vertex by a plain edge instead of a Hadamard edge
    HubPlainEdge,
    /// an X spider among the neighbours of the first hub
    HubXNeighbour,
    /// leaf of the first gadget attached by a plain edge
    LeafPlainEdge,
}

#[derive(Clone, Debug, PartialEq, Serialize, Deserialize)]
pub enum Plant {
    /// `hubs.len()` phase gadgets on the same support
    Gadgets {
        support: Vec<u16>,
        hubs: Vec<(bool, (i64, i64))>, // (hub has phase pi, leaf phase)
        spoiler: Spoiler,
    },
    /// a cat-n star: hub (0 or pi) joined by H edges to n T-like spiders, which may have further
    /// H edges into the host
    Cat {
        hub_pi: bool,
        legs: Vec<((i64, i64), Vec<u16>)>,
    },
    /// two adjacent spiders with Pauli / given phases and H neighbourhoods in the host
    Pivot {
        p0: (i64, i64),
        p1: (i64, i64),
        n0: Vec<u16>,
        n1: Vec<u16>,
        bnd0: u8, // 0 none, 1 plain boundary, 2 hadamard boundary
        bnd1: u8,
    },
    /// a spider with phase +-1/2 (or given) with an H neighbourhood
    LocalComp {
        p: (i64, i64),
        ns: Vec<u16>,
        bnd: u8,
    },
    /// two spiders with identical H neighbourhoods, the second one Pauli
    Duplicate {
        p0: (i64, i64),
        pi1: bool,
        ns: Vec<u16>,
    },
}

fn z_spiders(d: &Diag) -> Vec<usize> {
    (0..d.verts.len())
        .filter(|&i| d.verts[i].kind == VK::Z)
        .collect()
}

fn pick_distinct(raw: &[u16], pool: &[usize]) -> Vec<usize> {
    let mut avail: Vec<usize> = pool.to_vec();
    let mut out = vec![];
    for r in raw {
        if avail.is_empty() {
            break;
        }
        let i = idx(*r, avail.len());
        out.push(avail.remove(i));
    }
    out
}

fn add_bnd(d: &mut Diag, v: usize, kind: u8) {
    if kind == 0 {
        return;
    }
    let b = d.add_vert(VK::B, (0, 1));
    d.add_edge(v, b, kind == 2);
    d.outputs.push(b);
}

impl Plant {
    pub fn apply(&self, d: &mut Diag) {
        let pool = z_spiders(d);
        match self {
            Plant::Gadgets {
                support,
                hubs,
                spoiler,
            } => {
                let sup = pick_distinct(support, &pool);
                let mut first = true;
                for (pi, leaf) in hubs {
                    let h = d.add_vert(VK::Z, if *pi { (1, 1) } else { (0, 1) });
                    let l = d.add_vert(VK::Z, norm_phase(*leaf));
                    let leaf_plain = first && *spoiler == Spoiler::LeafPlainEdge;
                    d.add_edge(h, l, !leaf_plain);
                    for (k, &s) in sup.iter().enumerate() {
                        let plain = first && k == 0 && *spoiler == Spoiler::HubPlainEdge;
                        d.add_edge(h, s, !plain);
                    }
                    if first {
                        match spoiler {
                            Spoiler::HubBoundary => add_bnd(d, h, 1),
                            Spoiler::HubXNeighbour => {
                                let x = d.add_vert(VK::X, (0, 1));
                                d.add_edge(h, x, true);
                                let y = d.add_vert(VK::Z, (1, 4));
                                d.add_edge(x, y, false);
                            }
                            _ => {}
                        }
                    }
                    first = false;
                }
            }
            Plant::Cat { hub_pi, legs } => {
                let h = d.add_vert(VK::Z, if *hub_pi { (1, 1) } else { (0, 1) });
                for (p, ns) in legs {
                    let t = d.add_vert(VK::Z, norm_phase(*p));
                    d.add_edge(h, t, true);
                    for s in pick_distinct(ns, &pool) {
                        d.add_edge(t, s, true);
                    }
                }
            }
            Plant::Pivot {
                p0,
                p1,
                n0,
                n1,
                bnd0,
                bnd1,
            } => {
                let a = d.add_vert(VK::Z, norm_phase(*p0));
                let b = d.add_vert(VK::Z, norm_phase(*p1));
                d.add_edge(a, b, true);
                for s in pick_distinct(n0, &pool) {
                    d.add_edge(a, s, true);
                }
                for s in pick_distinct(n1, &pool) {
                    d.add_edge(b, s, true);
                }
                add_bnd(d, a, *bnd0);
                add_bnd(d, b, *bnd1);
            }
            Plant::LocalComp { p, ns, bnd } => {
                let a = d.add_vert(VK::Z, norm_phase(*p));
                for s in pick_distinct(ns, &pool) {
                    d.add_edge(a, s, true);
                }
                add_bnd(d, a, *bnd);
            }
            Plant::Duplicate { p0, pi1, ns } => {
                let a = d.add_vert(VK::Z, norm_phase(*p0));
                let b = d.add_vert(VK::Z, if *pi1 { (1, 1) } else { (0, 1) });
                for s in pick_distinct(ns, &pool) {
                    d.add_edge(a, s, true);
                    d.add_edge(b, s, true);
                }
            }
        }
    }
}

fn raws(max: usize) -> BoxedStrategy<Vec<u16>> {
    prop::collection::vec(any::<u16>(), 0..=max).boxed()
}

fn pauli() -> BoxedStrategy<(i64, i64)> {
    prop_oneof![Just((0i64, 1i64)), Just((1i64, 1i64))].boxed()
}

fn t_like() -> BoxedStrategy<(i64, i64)> {
    prop_oneof![Just((1i64, 4i64)), Just((-1, 4)), Just((3, 4)), Just((-3, 4))].boxed()
}

pub fn gadgets_plant(pal: Palette, spoilers: bool) -> BoxedStrategy<Plant> {
    (
        raws(3),
        prop::collection::vec((any::<bool>(), phase_strategy(pal)), 2..=3),
        if spoilers {
            prop_oneof![
                4 => Just(Spoiler::None),
                1 => Just(Spoiler::HubBoundary),
                1 => Just(Spoiler::HubPlainEdge),
                1 => Just(Spoiler::HubXNeighbour),
                1 => Just(Spoiler::LeafPlainEdge),
            ]
            .boxed()
        } else {
            Just(Spoiler::None).boxed()
        },
    )
        .prop_map(|(support, hubs, spoiler)| Plant::Gadgets {
            support,
            hubs,
            spoiler,
        })
        .boxed()
}

pub fn cat_plant(max_extra: usize) -> BoxedStrategy<Plant> {
    (
        any::<bool>(),
        prop::collection::vec((t_like(), raws(max_extra)), 3..=6),
    )
        .prop_map(|(hub_pi, legs)| Plant::Cat { hub_pi, legs })
        .boxed()
}

pub fn pivot_plant(pal: Palette) -> BoxedStrategy<Plant> {
    (
        prop_oneof![3 => pauli(), 1 => phase_strategy(pal)],
        prop_oneof![3 => pauli(), 1 => phase_strategy(pal)],
        raws(3),
        raws(3),
        prop_oneof![3 => Just(0u8), 1 => Just(1u8), 1 => Just(2u8)],
        prop_oneof![4 => Just(0u8), 1 => Just(1u8)],
    )
        .prop_map(|(p0, p1, n0, n1, bnd0, bnd1)| Plant::Pivot {
            p0,
            p1,
            n0,
            n1,
            bnd0,
            bnd1,
        })
        .boxed()
}

pub fn local_comp_plant() -> BoxedStrategy<Plant> {
    (
        prop_oneof![Just((1i64, 2i64)), Just((-1i64, 2i64))],
        raws(4),
        prop_oneof![3 => Just(0u8), 1 => Just(1u8), 1 => Just(2u8)],
    )
        .prop_map(|(p, ns, bnd)| Plant::LocalComp { p, ns, bnd })
        .boxed()
}

pub fn duplicate_plant(pal: Palette) -> BoxedStrategy<Plant> {
    (phase_strategy(pal), any::<bool>(), raws(3))
        .prop_map(|(p0, pi1, ns)| Plant::Duplicate { p0, pi1, ns })
        .boxed()
}

pub fn any_rule_plant(pal: Palette) -> BoxedStrategy<Plant> {
    prop_oneof![
        3 => gadgets_plant(pal, true),
        2 => pivot_plant(pal),
        1 => local_comp_plant(),
        1 => duplicate_plant(pal),
        1 => cat_plant(1),
    ]
    .boxed()
}

#[derive(Clone, Debug, PartialEq, Serialize, Deserialize)]
pub struct PlantedSpec {
    pub host: super::diag::DiagSpec,
    pub plants: Vec<Plant>,
}

impl PlantedSpec {
    pub fn to_diag(&self) -> Diag {
        let mut d = self.host.to_diag();
        for p in &self.plants {
            p.apply(&mut d);
        }
        d
    }
}

pub fn planted_spec(
    host: super::diag::DiagParams,
    plant: BoxedStrategy<Plant>,
    max_plants: usize,
) -> BoxedStrategy<PlantedSpec> {
    (
        super::diag::diag_spec(host),
        prop::collection::vec(plant, 1..=max_plants),
    )
        .prop_map(|(host, plants)| PlantedSpec { host, plants })
        .boxed()
}

/// Two adjacent hub spiders with many private neighbours each ("double star"): reaches the
/// high-degree regime (exponents of sqrt2 beyond 64 bits) with a diagram of small treewidth.
#[derive(Clone, Debug, PartialEq, Serialize, Deserialize)]
pub struct StarSpec {
    pub a: usize,
    pub b: usize,
    pub shared: usize,
    pub p0: (i64, i64),
    pub p1: (i64, i64),
    pub leaf_phases: Vec<(i64, i64)>,
    /// boundaries: 0 none, 1 output on the first leaf of each hub, 2 also an input on hub 0
    pub bnds: u8,
    /// add a degree-1 leaf (gadget phase) to some of the private neighbours
    pub extra_leaves: Vec<u16>,
}

impl StarSpec {
    pub fn to_diag(&self) -> Diag {
        let mut d = Diag::empty();
        let h0 = d.add_vert(VK::Z, norm_phase(self.p0));
        let h1 = d.add_vert(VK::Z, norm_phase(self.p1));
        d.add_edge(h0, h1, true);
        let mut k = 0usize;
        let mut next_phase = |k: &mut usize| {
            let p = self.leaf_phases.get(*k % self.leaf_phases.len().max(1)).copied().unwrap_or((1, 4));
            *k += 1;
            norm_phase(p)
        };
        let mut privs = vec![];
        for _ in 0..self.a.min(20) {
            let v = d.add_vert(VK::Z, next_phase(&mut k));
            d.add_edge(h0, v, true);
            privs.push(v);
        }
        let first_b = d.verts.len();
        for _ in 0..self.b.min(20) {
            let v = d.add_vert(VK::Z, next_phase(&mut k));
            d.add_edge(h1, v, true);
            privs.push(v);
        }
        for _ in 0..self.shared.min(2) {
            let v = d.add_vert(VK::Z, next_phase(&mut k));
            d.add_edge(h0, v, true);
            d.add_edge(h1, v, true);
        }
        for raw in &self.extra_leaves {
            if privs.is_empty() {
                break;
            }
            let v = privs[idx(*raw, privs.len())];
            let l = d.add_vert(VK::Z, next_phase(&mut k));
            d.add_edge(v, l, true);
        }
        if self.bnds >= 1 {
            if self.a > 0 {
                let b = d.add_vert(VK::B, (0, 1));
                d.add_edge(2, b, false);
                d.outputs.push(b);
            }
            if self.b > 0 {
                let b = d.add_vert(VK::B, (0, 1));
                d.add_edge(first_b, b, false);
                d.outputs.push(b);
            }
        }
        if self.bnds >= 2 {
            let b = d.add_vert(VK::B, (0, 1));
            d.add_edge(h0, b, false);
            d.inputs.push(b);
        }
        d
    }
}

pub fn star_spec(max_leaves: usize) -> BoxedStrategy<StarSpec> {
    (
        prop_oneof![1 => 0usize..=6, 3 => 8usize..=max_leaves],
        prop_oneof![1 => 0usize..=6, 3 => 8usize..=max_leaves],
        0usize..=2,
        prop_oneof![3 => pauli(), 1 => phase_strategy(Palette::ExactT)],
        prop_oneof![3 => pauli(), 1 => phase_strategy(Palette::ExactT)],
        prop::collection::vec(phase_strategy(Palette::ExactT), 1..=6),
        0u8..3,
        prop::collection::vec(any::<u16>(), 0..=3),
    )
        .prop_map(|(a, b, shared, p0, p1, leaf_phases, bnds, extra_leaves)| StarSpec {
            a,
            b,
            shared,
            p0,
            p1,
            leaf_phases,
            bnds,
            extra_leaves,
        })
        .boxed()
}
