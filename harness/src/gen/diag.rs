//! Generators of well-formed ZX-diagrams.  A `DiagSpec` is the raw generated value; `to_diag` maps
//! every raw value (hence every shrink) to a well-formed diagram: simple graph, every boundary of
//! degree one and listed exactly once.

use super::idx;
use crate::oracle::diag::{norm_phase, Diag, IdPlan, MScalar, MVert, VK};
use crate::oracle::ring::{Ring, Zw};
use proptest::prelude::*;
use serde::{Deserialize, Serialize};

#[derive(Clone, Debug, PartialEq, Serialize, Deserialize)]
pub struct SpiderSpec {
    pub x: bool,
    pub phase: (i64, i64),
    pub vars: Vec<u32>,
}

#[derive(Clone, Debug, PartialEq, Serialize, Deserialize)]
pub struct BndSpec {
    pub attach: u16,
    pub h: bool,
    pub input: bool,
}

#[derive(Clone, Debug, PartialEq, Serialize, Deserialize)]
pub struct WireSpec {
    pub h: bool,
    /// 0: input-output, 1: input-input (cup), 2: output-output (cap), 3: output-input
    pub dirs: u8,
}

#[derive(Clone, Debug, PartialEq, Serialize, Deserialize)]
pub enum ScalarSpec {
    /// omega^k * sqrt2^p
    Mono(u8, i8),
    /// (a + b w + c w^2 + d w^3) * 2^e
    Zw([i8; 4], i8),
    Float(f64, f64),
}

#[derive(Clone, Debug, PartialEq, Serialize, Deserialize)]
pub struct DiagSpec {
    pub spiders: Vec<SpiderSpec>,
    pub edges: Vec<(u16, u16, bool)>,
    pub bnds: Vec<BndSpec>,
    pub wires: Vec<WireSpec>,
    pub scalar: ScalarSpec,
    pub plan: IdPlan,
}

impl ScalarSpec {
    pub fn to_mscalar(&self) -> MScalar {
        match self {
            ScalarSpec::Mono(k, p) => {
                MScalar::Exact(Zw::omega_pow(*k as i64).mul(&Zw::sqrt2_pow(*p as i32)))
            }
            ScalarSpec::Zw(c, e) => {
                let z = Zw::new(
                    [c[0] as i128, c[1] as i128, c[2] as i128, c[3] as i128],
                    *e as i32,
                );
                if z.is_zero() {
                    MScalar::Exact(Zw::ONE)
                } else {
                    MScalar::Exact(z)
                }
            }
            ScalarSpec::Float(re, im) => {
                if *re == 0.0 && *im == 0.0 {
                    MScalar::Exact(Zw::ONE)
                } else {
                    MScalar::Float(*re, *im)
                }
            }
        }
    }
}

impl DiagSpec {
    /// Model vertices are numbered: spiders first (in spec order), then boundaries of `bnds`, then
    /// the two ends of each wire.
    pub fn to_diag(&self) -> Diag {
        let ns = self.spiders.len();
        let mut d = Diag::empty();
        for s in &self.spiders {
            let mut vars = s.vars.clone();
            vars.sort();
            // XOR semantics: a variable occurring twice cancels
            let mut vv: Vec<u32> = vec![];
            for v in vars {
                if vv.last() == Some(&v) {
                    vv.pop();
                } else {
                    vv.push(v);
                }
            }
            d.verts.push(MVert {
                kind: if s.x { VK::X } else { VK::Z },
                phase: norm_phase(s.phase),
                vars: vv,
                vars_const: false,
            });
        }
        for &(a, b, h) in &self.edges {
            if ns < 2 {
                break;
            }
            let (a, b) = (idx(a, ns), idx(b, ns));
            if a != b && !d.has_edge(a, b) {
                d.add_edge(a, b, h);
            }
        }
        for b in &self.bnds {
            if ns == 0 {
                break;
            }
            let v = d.add_vert(VK::B, (0, 1));
            d.add_edge(idx(b.attach, ns), v, b.h);
            if b.input {
                d.inputs.push(v);
            } else {
                d.outputs.push(v);
            }
        }
        for w in &self.wires {
            let a = d.add_vert(VK::B, (0, 1));
            let b = d.add_vert(VK::B, (0, 1));
            d.add_edge(a, b, w.h);
            match w.dirs % 4 {
                0 => {
                    d.inputs.push(a);
                    d.outputs.push(b);
                }
                1 => {
                    d.inputs.push(a);
                    d.inputs.push(b);
                }
                2 => {
                    d.outputs.push(a);
                    d.outputs.push(b);
                }
                _ => {
                    d.outputs.push(a);
                    d.inputs.push(b);
                }
            }
        }
        d.scalar = self.scalar.to_mscalar();
        d
    }
}

#[derive(Clone, Copy, Debug, PartialEq)]
pub enum Palette {
    /// multiples of pi/4, Clifford-biased
    Exact,
    /// multiples of pi/4, T-biased
    ExactT,
    /// multiples of pi only
    Pauli,
    /// multiples of pi/2 only
    Clifford,
    /// arbitrary small rationals (and quarter multiples)
    General,
}

pub fn phase_strategy(p: Palette) -> BoxedStrategy<(i64, i64)> {
    match p {
        Palette::Exact => prop_oneof![
            4 => Just((0i64, 1i64)),
            3 => Just((1, 1)),
            3 => Just((1, 2)),
            3 => Just((-1, 2)),
            2 => Just((1, 4)),
            1 => Just((-1, 4)),
            1 => Just((3, 4)),
            1 => Just((-3, 4)),
        ]
        .boxed(),
        Palette::ExactT => prop_oneof![
            2 => Just((0i64, 1i64)),
            2 => Just((1, 1)),
            1 => Just((1, 2)),
            1 => Just((-1, 2)),
            3 => Just((1, 4)),
            2 => Just((-1, 4)),
            2 => Just((3, 4)),
            2 => Just((-3, 4)),
        ]
        .boxed(),
        Palette::Pauli => prop_oneof![Just((0i64, 1i64)), Just((1, 1))].boxed(),
        Palette::Clifford => prop_oneof![
            Just((0i64, 1i64)),
            Just((1, 1)),
            Just((1, 2)),
            Just((-1, 2))
        ]
        .boxed(),
        Palette::General => prop_oneof![
            3 => phase_strategy(Palette::Exact),
            5 => (prop::sample::select(vec![3i64, 5, 6, 7, 8, 12, 16, 9, 32]), any::<u16>()).prop_map(
                |(d, r)| {
                    let n = (r as i64 * (2 * d)) >> 16; // 0..2d
                    norm_phase((n - d + 1, d))
                }
            ),
        ]
        .boxed(),
    }
}

#[derive(Clone, Debug)]
pub struct DiagParams {
    pub max_spiders: usize,
    pub max_bnds: usize,
    pub max_wires: usize,
    pub palette: Palette,
    pub allow_x: bool,
    /// allow plain (non-Hadamard) edges between spiders
    pub allow_plain: bool,
    /// allow Hadamard edges at boundaries
    pub allow_bnd_h: bool,
    pub max_vars: u32,
    pub var_prob: u32, // percent of spiders with variables
    pub general_scalar: bool,
    pub dense: bool,
}

impl DiagParams {
    pub fn general(max_spiders: usize, max_bnds: usize, palette: Palette) -> DiagParams {
        DiagParams {
            max_spiders,
            max_bnds,
            max_wires: 1,
            palette,
            allow_x: true,
            allow_plain: true,
            allow_bnd_h: true,
            max_vars: 0,
            var_prob: 0,
            general_scalar: true,
            dense: false,
        }
    }
    pub fn graph_like(max_spiders: usize, max_bnds: usize, palette: Palette) -> DiagParams {
        DiagParams {
            max_spiders,
            max_bnds,
            max_wires: 0,
            palette,
            allow_x: false,
            allow_plain: false,
            allow_bnd_h: false,
            max_vars: 0,
            var_prob: 0,
            general_scalar: true,
            dense: false,
        }
    }
}

pub fn scalar_strategy(general: bool, float: bool) -> BoxedStrategy<ScalarSpec> {
    if !general {
        return Just(ScalarSpec::Mono(0, 0)).boxed();
    }
    let mono = (0u8..8, -4i8..=4).prop_map(|(k, p)| ScalarSpec::Mono(k, p));
    let zw = (prop::array::uniform4(-3i8..=3), -3i8..=3).prop_map(|(c, e)| ScalarSpec::Zw(c, e));
    if float {
        prop_oneof![
            3 => Just(ScalarSpec::Mono(0, 0)),
            3 => mono,
            2 => zw,
            2 => (-4.0f64..4.0, -4.0f64..4.0).prop_map(|(a, b)| ScalarSpec::Float(a, b)),
        ]
        .boxed()
    } else {
        prop_oneof![
            3 => Just(ScalarSpec::Mono(0, 0)),
            3 => mono,
            2 => zw,
        ]
        .boxed()
    }
}

pub fn plan_strategy(n: usize) -> BoxedStrategy<IdPlan> {
    prop_oneof![
        2 => Just(IdPlan::default()),
        3 => (
            prop::collection::vec(any::<u16>(), 0..=n),
            prop::collection::vec(prop_oneof![4 => Just(0u8), 2 => Just(1u8), 1 => Just(2u8)], 0..=n)
        )
            .prop_map(|(order, gaps)| IdPlan { order, gaps, edge_order: 0 }),
        // every name congruent modulo 32 / 64 / 128 / 256
        1 => (prop::collection::vec(any::<u16>(), 0..=n), prop_oneof![3 => Just(3u8), 1 => Just(4u8), 1 => Just(5u8), 1 => Just(6u8)])
            .prop_map(move |(order, code)| IdPlan { order, gaps: vec![code; n.max(1)], edge_order: 0 }),
        // long irregular strides
        1 => (
            prop::collection::vec(any::<u16>(), 0..=n),
            prop::collection::vec(prop_oneof![4 => Just(0u8), 1 => Just(1u8), 2 => Just(3u8), 1 => Just(7u8), 1 => Just(8u8), 1 => Just(4u8)], 0..=n)
        )
            .prop_map(|(order, gaps)| IdPlan { order, gaps, edge_order: 0 }),
    ]
    .prop_flat_map(|plan| {
        // independently of the names: shuffled edge insertion order for half of the cases
        prop_oneof![Just(0u64), any::<u64>()].prop_map(move |edge_order| IdPlan { edge_order, ..plan.clone() })
    })
    .boxed()
}

pub fn diag_spec(p: DiagParams) -> BoxedStrategy<DiagSpec> {
    let float_scalar = p.palette == Palette::General;
    let pal = p.palette;
    let allow_x = p.allow_x;
    let max_vars = p.max_vars;
    let var_prob = p.var_prob;
    let spider = (
        if allow_x {
            prop_oneof![3 => Just(false), 2 => Just(true)].boxed()
        } else {
            Just(false).boxed()
        },
        phase_strategy(pal),
        if max_vars > 0 {
            prop_oneof![
                (100 - var_prob) => Just(vec![]),
                var_prob => prop::collection::vec(0..max_vars, 1..=3),
            ]
            .boxed()
        } else {
            Just(vec![]).boxed()
        },
    )
        .prop_map(|(x, phase, vars)| SpiderSpec { x, phase, vars });
    let allow_plain = p.allow_plain;
    let allow_bnd_h = p.allow_bnd_h;
    let max_e = if p.dense {
        p.max_spiders * (p.max_spiders.saturating_sub(1)) / 2
    } else {
        p.max_spiders * 2
    };
    let edge = (
        any::<u16>(),
        any::<u16>(),
        if allow_plain {
            prop_oneof![3 => Just(true), 2 => Just(false)].boxed()
        } else {
            Just(true).boxed()
        },
    );
    let bnd = (
        any::<u16>(),
        if allow_bnd_h {
            prop_oneof![3 => Just(false), 1 => Just(true)].boxed()
        } else {
            Just(false).boxed()
        },
        any::<bool>(),
    )
        .prop_map(|(attach, h, input)| BndSpec { attach, h, input });
    let wire = (any::<bool>(), 0u8..4).prop_map(|(h, dirs)| WireSpec { h, dirs });
    let nmax = p.max_spiders + p.max_bnds + 2 * p.max_wires;
    (
        prop::collection::vec(spider, 0..=p.max_spiders),
        prop::collection::vec(edge, 0..=max_e),
        prop::collection::vec(bnd, 0..=p.max_bnds),
        prop::collection::vec(wire, 0..=p.max_wires),
        scalar_strategy(p.general_scalar, float_scalar),
        plan_strategy(nmax),
    )
        .prop_map(|(spiders, edges, bnds, wires, scalar, plan)| DiagSpec {
            spiders,
            edges,
            bnds,
            wires,
            scalar,
            plan,
        })
        .boxed()
}
