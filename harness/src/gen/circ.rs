//! Generators of circuits over a weighted gate-kind mask.

use super::diag::{phase_strategy, Palette};
use super::idx;
use crate::oracle::csim::{Circ, MGate, GK};
use crate::oracle::diag::norm_phase;
use proptest::prelude::*;
use serde::{Deserialize, Serialize};

#[derive(Clone, Debug, PartialEq, Serialize, Deserialize)]
pub struct GateSpec {
    pub k: GK,
    pub qs: Vec<u16>,
    pub phase: (i64, i64),
    pub var: Option<u32>,
}

#[derive(Clone, Debug, PartialEq, Serialize, Deserialize)]
pub struct CircSpec {
    pub n: usize,
    pub gates: Vec<GateSpec>,
}

/// choose `k` distinct qubits out of `n` from raw values (monotone in each raw value)
pub fn distinct_qubits(raw: &[u16], k: usize, n: usize) -> Option<Vec<usize>> {
    if k > n || raw.len() < k {
        return None;
    }
    let mut avail: Vec<usize> = (0..n).collect();
    let mut out = vec![];
    for r in raw.iter().take(k) {
        let i = idx(*r, avail.len());
        out.push(avail.remove(i));
    }
    Some(out)
}

impl CircSpec {
    /// Map to a circuit in the documented domain: distinct qubit arguments; ancilla initialisation
    /// only as the first operation on its qubit; nothing after post-selection / destructive
    /// measurement on a qubit.  Gates that do not fit are dropped.
    pub fn to_circ(&self) -> Circ {
        let n = self.n.max(1);
        let mut used = vec![false; n];
        let mut dead = vec![false; n];
        let mut gates = vec![];
        for g in &self.gates {
            let arity = match g.k.arity() {
                Some(a) => a,
                None => g.qs.len().min(n), // parity phase: as many as given
            };
            let Some(qs) = distinct_qubits(&g.qs, arity, n) else {
                continue;
            };
            if qs.iter().any(|&q| dead[q]) {
                continue;
            }
            if g.k == GK::InitAnc && used[qs[0]] {
                continue;
            }
            for &q in &qs {
                used[q] = true;
            }
            if matches!(g.k, GK::PostSel | GK::MeasureD) {
                dead[qs[0]] = true;
            }
            gates.push(MGate {
                k: g.k,
                qs,
                phase: if g.k.has_phase() {
                    norm_phase(g.phase)
                } else {
                    (0, 1)
                },
                vars: if matches!(g.k, GK::MeasureD | GK::MeasureR) {
                    g.var.map(|v| vec![v]).unwrap_or_default()
                } else {
                    vec![]
                },
            });
        }
        Circ { n, gates }
    }
}

#[derive(Clone, Debug)]
pub struct CircParams {
    pub min_q: usize,
    pub max_q: usize,
    pub max_gates: usize,
    pub kinds: Vec<(u32, GK)>,
    pub palette: Palette,
    pub max_var: u32,
}

pub fn clifford_t_kinds() -> Vec<(u32, GK)> {
    vec![
        (3, GK::H),
        (3, GK::Cx),
        (3, GK::Cz),
        (3, GK::T),
        (1, GK::Tdg),
        (2, GK::S),
        (1, GK::Sdg),
        (1, GK::Z),
        (1, GK::X),
    ]
}

pub fn unitary_kinds() -> Vec<(u32, GK)> {
    let mut k = clifford_t_kinds();
    k.extend(vec![
        (2, GK::Rz),
        (2, GK::Rx),
        (1, GK::Ccx),
        (1, GK::Ccz),
        (2, GK::Swap),
        (1, GK::Xcx),
        (2, GK::Pp),
    ]);
    k
}

pub fn all_kinds() -> Vec<(u32, GK)> {
    let mut k = unitary_kinds();
    k.extend(vec![(1, GK::InitAnc), (1, GK::PostSel)]);
    k
}

pub fn gate_spec(kinds: Vec<(u32, GK)>, palette: Palette, max_var: u32) -> BoxedStrategy<GateSpec> {
    let mut expanded = vec![];
    for (w, k) in kinds {
        for _ in 0..w {
            expanded.push(k);
        }
    }
    (
        prop::sample::select(expanded),
        prop::collection::vec(any::<u16>(), 1..=5),
        phase_strategy(palette),
        if max_var > 0 {
            prop::option::of(0..max_var).boxed()
        } else {
            Just(None).boxed()
        },
    )
        .prop_map(|(k, mut qs, phase, var)| {
            if k.arity() == Some(3) || k.arity().is_none() {
                while qs.len() < 3 && k.arity() == Some(3) {
                    qs.push(qs[0].wrapping_add(21845));
                }
            } else if k.arity() == Some(2) {
                while qs.len() < 2 {
                    qs.push(qs[0].wrapping_add(32768));
                }
            }
            GateSpec { k, qs, phase, var }
        })
        .boxed()
}

pub fn circ_spec(p: CircParams) -> BoxedStrategy<CircSpec> {
    (
        p.min_q..=p.max_q,
        prop::collection::vec(gate_spec(p.kinds.clone(), p.palette, p.max_var), 0..=p.max_gates),
    )
        .prop_map(|(n, gates)| CircSpec { n, gates })
        .boxed()
}
