pub mod circ;
pub mod diag;
pub mod plant;

/// Monotone index mapping (keeps proptest shrinking effective): raw in 0..=65535 -> 0..len
pub fn idx(raw: u16, len: usize) -> usize {
    if len == 0 {
        0
    } else {
        ((raw as usize) * len) >> 16
    }
}
