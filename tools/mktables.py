#!/usr/bin/env python3
"""Regenerate the generated tables of DESIGN.md (between the BEGIN/END markers)."""
import json, os, re, glob
HERE=os.path.join(os.path.dirname(os.path.abspath(__file__)),'..')
kf=json.load(open(os.path.join(HERE,'known_findings.json')))['findings']
rows=["| # | property | id | status | fix commit | call site | what failed |","|---|---|---|---|---|---|---|"]
for i,f in enumerate(kf,1):
    rows.append("| %d | %s | `%s` | %s | %s | %s | %s |"%(i,f['property'],f['id'],f['status'],f.get('commit','—'),f['call_site'].replace('|','/'),f['what_fails'].replace('|','/')))
findings="\n".join(rows)
rows=["| seeded change | breaks | needs in order to manifest | caught by (quick tier) | when first tried |","|---|---|---|---|---|"]
for d in sorted(glob.glob(os.path.join(HERE,'seeded','*','meta.json'))):
    m=json.load(open(d))
    rows.append("| `%s` | %s | %s | %s | %s |"%(m['seed_id'],m['property'],m['needs_to_manifest'].replace('|','/'),", ".join(m['caught_by']) if m.get('caught_by') else "**missed** — "+m.get('note',''), m.get('first_result','caught')))
seeded="\n".join(rows)
p=os.path.join(HERE,'DESIGN.md')
s=open(p).read()
s=re.sub(r'(<!-- BEGIN findings -->).*?(<!-- END findings -->)',lambda m:m.group(1)+"\n"+findings+"\n"+m.group(2),s,flags=re.S)
s=re.sub(r'(<!-- BEGIN seeded -->).*?(<!-- END seeded -->)',lambda m:m.group(1)+"\n"+seeded+"\n"+m.group(2),s,flags=re.S)
open(p,'w').write(s)
print("tables regenerated:",len(kf),"findings")
