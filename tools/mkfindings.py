#!/usr/bin/env python3
"""Regenerate /verif/known_findings.json from tools/findings_data.py (hashes looked up in /repo)."""
import json, subprocess, sys, os
sys.path.insert(0, os.path.dirname(__file__))
from findings_data import FINDINGS
log = subprocess.run(['git','-C','/repo','log','--format=%h\t%s'],capture_output=True,text=True).stdout.strip().split('\n')
out=[]
for prop,fid,status,subj,site,what in FINDINGS:
    e={"property":prop,"id":fid,"status":status,"call_site":site,"what_fails":what}
    if status=="fixed":
        hits=[l for l in log if l.split('\t',1)[1].startswith(subj)]
        assert len(hits)==1,(subj,hits)
        h,s=hits[0].split('\t',1)
        e["commit"]=h
        e["commit_subject"]=s
        e["record"]=f"fixed: property={prop} {h} {what}"
    out.append(e)
doc={"_comment":"Genuine defects of zxcalc/quizx found by the checks. status=known: recorded, not repaired (the check prints KNOWN-FINDING for it and goes on; any other violation still exits 1); status=fixed: repaired by the named `fix:` commit in /repo (suppresses nothing: if the behaviour returns the check reports a violation). Never written at run time; regenerate with tools/mkfindings.py.",
     "findings":out}
json.dump(doc,open(os.path.join(os.path.dirname(__file__),'..','known_findings.json'),'w'),indent=1,ensure_ascii=False)
print(len(out),"findings")
