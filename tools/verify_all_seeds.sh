#!/usr/bin/env bash
# verify_all_seeds.sh [seed-id-glob] : re-run every stored seeded change against the checks its
# meta.json names (quick tier, VERIF_SEED 1 and 2) and record the outcome in seeded/<id>/last_run.txt.
# Patches /repo temporarily: run nothing else against /repo meanwhile.
set -u
cd /verif
pat="${1:-*}"
for d in seeded/$pat/; do
  id=$(basename "$d")
  ids=$(python3 -c "
import json,re,sys
m=json.load(open('$d/meta.json'))
print(' '.join(sorted({re.match(r'C\d\d',c).group(0) for c in m.get('caught_by',[]) if re.match(r'C\d\d',c)})))")
  [ -z "$ids" ] && { echo "$id: no check named"; continue; }
  out=$(SEEDS="${SEEDS:-1 2}" tools/try_seed.sh "/verif/${d}patch.diff" $ids 2>&1)
  echo "$out" | grep -E "^== |VIOLATION" | sed 's/replay=.*//' > "$d/last_run.txt"
  caught=$(grep -c "exit=1" "$d/last_run.txt")
  total=$(grep -c "^== " "$d/last_run.txt")
  echo "$id: $caught/$total runs reported a violation ($ids)"
done
git -C /repo status --short | head -3
