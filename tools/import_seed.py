#!/usr/bin/env python3
"""import_seed.py <worktree> <seed-id> <property> <caught_by> "<needs>" : store a confirmed seeded change under /verif/seeded/<seed-id>/"""
import sys, os, shutil, json, subprocess
wt, sid, prop, caught, needs = sys.argv[1:6]
first = sys.argv[6] if len(sys.argv) > 6 else ""
dst = os.path.join('/verif/seeded', sid)
os.makedirs(dst, exist_ok=True)
src = os.path.join(wt, '_out') if os.path.isdir(os.path.join(wt, '_out')) else wt
for f in ('patch.diff', 'seeded_demo.rs', 'meta.txt'):
    shutil.copy(os.path.join(src, f), os.path.join(dst, f))
files = subprocess.run(['grep', '-E', r'^\+\+\+ ', os.path.join(dst, 'patch.diff')], capture_output=True, text=True).stdout.split('\n')
meta = {
  "seed_id": sid,
  "property": prop,
  "origin": "written by an independent sub-agent that saw only the property text and a scratch worktree of /repo (nothing from /verif)",
  "files_changed": [l[6:] for l in files if l],
  "needs_to_manifest": needs,
  "confirmed_by_me": {
    "in_scratch_worktree": "tools/verify_seed.sh: `cargo test -p quizx --offline --no-fail-fast` with the change: every pre-existing target passes (229+6+19 tests, 7 doctests), only the added demo fails; demo fails with the change and passes after `git checkout -- quizx/src`",
    "against_checks": "tools/try_seed.sh: `git -C /repo apply patch.diff`, `VERIF_SEED=1|2 ./qv check <id> --tier quick`, `git -C /repo checkout -- .`",
  },
  "caught_by": caught.split(','),
  "detected": True if caught else False,
}
if first:
    meta["first_result"] = first
json.dump(meta, open(os.path.join(dst, 'meta.json'), 'w'), indent=1)
print('stored', dst)
