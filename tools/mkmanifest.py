#!/usr/bin/env python3
"""Regenerate /verif/MANIFEST.json."""
import json, os, subprocess
HERE=os.path.join(os.path.dirname(os.path.abspath(__file__)),'..')
CHECKS = {
 "C01": ("differential/metamorphic PBT: independent exact ZX evaluator before vs after each simplifier (proptest, planted generators, both backends)", "§6 C01"),
 "C02": ("differential PBT: translated diagram evaluated by the independent evaluator vs independent gate-matrix simulator (proptest)", "§6 C02"),
 "C03": ("differential PBT: extracted circuit simulated by the independent simulator vs source circuit, projective comparison; CLI spawned on generated QASM files", "§6 C03"),
 "C04": ("bounded-exhaustive enumeration of small diagrams + PBT with planting: every rule x every argument tuple, accept=>sound / reject=>no-op against the independent evaluator", "§6 C04"),
 "C05": ("differential PBT: Decomposer scalar vs brute-force exact evaluation; one-step and saved-terms sum identities via hook; scripted and logging drivers; rayon pools 1..16", "§6 C05"),
 "C06": ("differential PBT on the CLI: quizx sim stdout vs independent state-vector simulation; sampler trace hook checked against exact conditional probabilities", "§6 C06"),
 "C07": ("model-based PBT: expression trees evaluated by the library vs a BigInt model of Z[omega][1/2]; conversions vs raw stored parts; libFuzzer target in the thorough tier", "§6 C07"),
 "C08": ("differential PBT: to_tensor4/to_tensorf entry by entry vs independent evaluator / simulator; helper predicates vs exact proportionality test", "§6 C08"),
 "C09": ("stateful model-based PBT: generated operation histories interpreted against a plain reference model and both backends, full observable state compared after every step", "§6 C09"),
 "C10": ("metamorphic PBT: instantiate(before,sigma) vs instantiate(after,sigma) through the independent evaluator for all 2^n assignments; measurement circuits vs projected simulation", "§6 C10"),
 "C11": ("differential PBT: plug/append/adjoint/basis plugging vs harness tensor contractions; is_identity vs structural predicate", "§6 C11"),
 "C12": ("differential PBT: answers of the equality checkers vs exact/projective ground truth from the independent simulator on constructed equal / near-miss pairs", "§6 C12"),
 "C13": ("round-trip PBT: decode(encode(g)) vs g by anchored isomorphism search, exact scalar comparison and independent evaluation", "§6 C13"),
 "C14": ("round-trip PBT + grammar-based generation of QASM texts; libFuzzer target on the text in the thorough tier", "§6 C14"),
 "C15": ("differential PBT: unitaries of c, c+c^dagger, to_basic_gates(c), c1+c2 from the independent simulator; gate-count and partition invariants", "§6 C15"),
 "C16": ("model-based PBT: i128 rational model, port of CPython limit_denominator and brute-force closest fraction", "§6 C16"),
 "C17": ("bounded-exhaustive enumeration (all matrices up to 3x4 x block sizes x modes) + PBT up to 24x24 against a naive F2 model with a recording RowOps proxy", "§6 C17"),
 "C18": ("stateful PBT: move histories driven by a scripted RNG, structural cubic-tree invariant and cached vs brute-force cut ranks after every move; annealer runs", "§6 C18"),
 "C19": ("PBT over seeds and parameters: reproducibility, parameter respect, hidden-shift promise and state norms by exact simulation/evaluation, gadget segmentation", "§6 C19"),
 "C20": ("PBT with renumbering metamorphic relation: returned webs vs constraint check, F2 independence and span equality with the harness's own edge-level linear system", "§6 C20"),
}
LEVEL_TEXT = {
 "default": "Exploration: every generated case is decided by an explicit oracle that shares no code with quizx; evidence reports cases, distinct non-trivial cases, class histogram and samples. Held-on-everything-explored, not absence.",
}
def main():
    ids = subprocess.run([os.path.join(HERE,'target/release/qv'),'list'],capture_output=True,text=True).stdout.split()
    hooks = subprocess.run(['git','-C','/repo','log','--format=%H %s'],capture_output=True,text=True).stdout.strip().split('\n')
    hook_commits=[l.split()[0] for l in hooks if l.split(' ',1)[1].startswith('verif hooks')]
    checks=[]
    for pid in sorted(ids):
        tech,ref=CHECKS[pid]
        exhaustive = pid in ("C04","C17")
        checks.append({
          "property_id":pid,
          "quick_cmd":f"./qv check {pid} --tier quick",
          "thorough_cmd":f"./qv check {pid} --tier thorough",
          "evidence_file":f"/verif/evidence/{pid}.json",
          "replay_cmd_template":"./qv replay {path}",
          "engine":"qv",
          "level_claimed":{"category":"exploration","text":LEVEL_TEXT["default"]+(" A finite sub-space is enumerated completely (see exhaustive_subspaces in the evidence)." if exhaustive else ""),"design_ref":ref},
          "level_note":"trusted base: the harness oracles (exact ring Z[omega][1/2], two ZX evaluators, gate-matrix simulator, reference models), cross-checked by `qv selftest`; quizx values are read through the guarded verif hooks; run is a pure function of the tree and VERIF_SEED except where DESIGN.md §8 says otherwise",
          "technique":tech,
        })
    na=[{"property_id":p,"reason":"check not built yet in this session (planned, see DESIGN.md §6)"} for p in sorted(CHECKS) if p not in ids]
    m={
     "version":1,
     "setup_cmd":"./qv build",
     "hooks":{"guard":"cargo feature `verif` of crate quizx (cfg(feature = \"verif\"))",
              "enable":"the harness depends on quizx with features=[\"verif\"]; the CLI binary is built with `--features verif` into /verif/target/cli",
              "baseline_off_cmd":"cd /repo && cargo test --workspace --no-fail-fast --offline",
              "source_commits":hook_commits,"add_only":True},
     "engines":[{"name":"qv","path":"/verif/harness","serves_properties":sorted(ids),"kind_free_text":"Rust binary: proptest-driven sharded runner (16 fixed shards, seeds derived from VERIF_SEED), bounded-exhaustive enumerations, corpus replay, watchdog, evidence writer; independent exact oracles; libFuzzer targets under /verif/fuzz for the thorough tier of C07 and C14"}],
     "checks":checks,
     "not_applicable":na,
     "notes":"Exit 0 = held on everything explored, 1 = VIOLATION line with replay file, 2 = inconclusive (build failure, watchdog, harness error). Known findings: /verif/known_findings.json.",
    }
    json.dump(m,open(os.path.join(HERE,'MANIFEST.json'),'w'),indent=1)
    print(len(checks),"checks,",len(na),"not yet built")
main()
