#!/usr/bin/env bash
# try_seed.sh <patch> <ID> [<ID>...] : apply a seeded change to /repo, run the quick checks, undo.
set -u
patch="$1"; shift
cd /repo || exit 2
git diff --quiet || { echo "/repo has uncommitted changes"; exit 2; }
git apply "$patch" || { echo "patch does not apply"; exit 2; }
export VERIF_EVIDENCE_DIR=/tmp/ev-seeded
mkdir -p $VERIF_EVIDENCE_DIR
for id in "$@"; do
  for seed in ${SEEDS:-1 2}; do
    out=$(cd /verif && VERIF_SEED=$seed ./qv check "$id" --tier quick 2>&1); rc=$?
    echo "== $id seed=$seed exit=$rc"
    echo "$out" | grep -E "violation in|VIOLATION|INCONCLUSIVE|HARNESS" | head -4
  done
done
git -C /repo checkout -- .
(cd /verif && ./qv build >/dev/null 2>&1)
