#!/usr/bin/env bash
# verify_seed.sh <worktree> : confirm in the scratch worktree that (1) the whole existing suite passes
# with the source change, (2) the demo fails with it, (3) the demo passes without it.
set -u
wt="$1"
cd "$wt" || exit 2
[ -f _out/patch.diff ] || { echo "no _out/patch.diff"; exit 2; }
# state: change applied?
git diff --quiet -- quizx/src && git apply _out/patch.diff
cp _out/seeded_demo.rs quizx/tests/seeded_demo.rs
out=$(cargo test -p quizx --offline --no-fail-fast 2>&1)
suite=$(echo "$out" | grep -E "^test result:" | tr '\n' '|')
nfail_other=$(echo "$out" | grep -E "^test .* FAILED" | grep -vc "seeded\|demo" )
failed_targets=$(echo "$out" | grep -E "error: test failed" | grep -v seeded_demo | wc -l)
demo_with=$(cargo test -p quizx --offline --test seeded_demo 2>&1 | grep -E "^test result:" | head -1)
git diff -- quizx/src > /tmp/verify_seed_patch.$$
git checkout -q -- quizx/src
demo_without=$(cargo test -p quizx --offline --test seeded_demo 2>&1 | grep -E "^test result:" | head -1)
git apply /tmp/verify_seed_patch.$$; rm -f /tmp/verify_seed_patch.$$
echo "suite_with_change: $suite"
echo "other_failed_targets: $failed_targets"
echo "demo_with_change: $demo_with"
echo "demo_without_change: $demo_without"
